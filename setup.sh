#!/bin/bash
# setup.sh [tools]: build the framework's tools from files on disk only and warm
# the Go build cache (runtime overlay + cgo sqlite) so that checks start fast.
set -u
V="${VERIF_HOME:-$(cd "$(dirname "${BASH_SOURCE[0]}")" && pwd)}"
export VERIF_HOME="$V"
export GOFLAGS=-mod=mod GOPROXY=off GOSUMDB=off GOTOOLCHAIN=local CGO_ENABLED=1
export PATH=/opt/veriftools/go1.26.8/bin:$PATH
mkdir -p $V/bin $V/build
(cd $V/tools && go build -o $V/bin/ ./cmd/rtoverlay ./cmd/instrument ./cmd/vrun) || { echo "setup: tool build failed" >&2; exit 2; }
$V/bin/rtoverlay "$(go env GOROOT)" $V/build/rt || exit 2
[ "${1:-}" = tools ] && exit 0
W=$(mktemp -d /tmp/verif-setup.XXXXXX)
VERIF_RACE=1 $V/tools/build.sh "$W/b"; rc=$?   # also warms the -race build used by C15
rm -rf "$W"
exit $rc
