module verif.local/sim

go 1.26

require (
	github.com/anishathalye/porcupine v1.3.0
	github.com/coder/websocket v1.8.13
	github.com/google/uuid v1.6.0
	github.com/high-moctane/mocrelay v0.0.0
	github.com/mattn/go-sqlite3 v1.14.27
	github.com/prometheus/client_golang v1.22.0
	pgregory.net/rapid v1.3.0
)

replace github.com/high-moctane/mocrelay => ../repo
