package props

import (
	"context"
	"encoding/json"
	"fmt"
	"hash/fnv"
	"math"
	"testing"

	"github.com/high-moctane/mocrelay"
	"pgregory.net/rapid"
	"verif.local/sim/ref"
	"verif.local/sim/simrt"
)

// C07: RouterHandler under concurrent sessions, statement-level interleaving.

type c07Client struct {
	Script []simrt.Op `json:"script"`
}

type C07Case struct {
	Buflen  int            `json:"buflen"`
	Clients []c07Client    `json:"clients"`
	Sched   simrt.Schedule `json:"sched"`
}

type c07Engine struct{}

func init() { register("router", c07Engine{}, "C07") }

func (c07Engine) Decode(b []byte) (any, error) {
	var c C07Case
	err := json.Unmarshal(b, &c)
	return &c, err
}

var c07Subs = []string{"a", "b"}

func c07FilterFamily() [][]simrt.FilterSpec {
	a0, a1 := ref.Authors[0].Pubkey, ref.Authors[1].Pubkey
	i64 := func(v int64) *int64 { return &v }
	return [][]simrt.FilterSpec{
		{{}},
		{{Kinds: []int64{1}}},
		{{Kinds: []int64{7}}},
		{{Authors: []string{a0}}},
		{{Authors: []string{a1}}, {Kinds: []int64{7}, Limit: i64(1)}},
		{{Tags: map[string][]string{"t": {"x"}}}},
		{{Kinds: []int64{1}, Tags: map[string][]string{"t": {"y"}}}},
		{{Tags: map[string][]string{"t": {"x", "y"}, "p": {a0}}}},
		{{Authors: []string{a0, a1}, Kinds: []int64{7}}, {Since: i64(50)}},
		{{Until: i64(49), Limit: i64(0)}},
		{{Until: i64(0)}},
		{{Since: i64(0), Kinds: []int64{7}}},
		{{EmptyKinds: true}},
	}
}

func (c07Engine) Gen(t *rapid.T, tier string) any {
	c := &C07Case{}
	maxConn, maxOps := 4, 8
	if tier == "thorough" {
		maxConn, maxOps = 5, 14
	}
	c.Buflen = rapid.SampledFrom([]int{1, 1, 2, 2, 3, 4, 8}).Draw(t, "buflen")
	n := rapid.IntRange(2, maxConn).Draw(t, "nconn")
	fam := c07FilterFamily()
	evn := 0
	for ci := 0; ci < n; ci++ {
		var cl c07Client
		nops := rapid.IntRange(1, maxOps).Draw(t, "nops")
		replies := 0
		paused := false
		for i := 0; i < nops; i++ {
			k := rapid.IntRange(0, 15).Draw(t, "opkind")
			switch {
			case k <= 3: // REQ
				sub := rapid.SampledFrom(c07Subs).Draw(t, "sub")
				fi := rapid.IntRange(0, len(fam)-1).Draw(t, "filter")
				cl.Script = append(cl.Script, simrt.Op{Kind: "send", Msg: &simrt.Msg{T: "REQ", Sub: sub, Filters: fam[fi]}})
				replies++
			case k <= 5: // CLOSE
				sub := rapid.SampledFrom(c07Subs).Draw(t, "sub")
				cl.Script = append(cl.Script, simrt.Op{Kind: "send", Msg: &simrt.Msg{T: "CLOSE", Sub: sub}})
			case k <= 10: // EVENT
				evn++
				ev := &simrt.EvSpec{
					Author:    rapid.IntRange(0, 2).Draw(t, "author"),
					Kind:      rapid.SampledFrom([]int64{1, 7}).Draw(t, "kind"),
					CreatedAt: int64(rapid.SampledFrom([]int{40, 45, 49, 50, 51, 55, 60, 0, -5}).Draw(t, "created_at")),
					Content:   fmt.Sprintf("e%d.%d", ci, evn),
				}
				if tg := rapid.IntRange(0, 5).Draw(t, "ttag"); tg > 0 {
					a0 := ref.Authors[0].Pubkey
					ev.Tags = [][][]string{{{"t", "x"}}, {{"t", "y"}}, {{"t", "x"}, {"t", "y"}}, {{"t", "x"}, {"p", a0}}, {{"t", "y"}, {"t", "x"}, {"p", a0, "hint"}}}[tg-1]
				}
				cl.Script = append(cl.Script, simrt.Op{Kind: "send", Msg: &simrt.Msg{T: "EVENT", Ev: ev}})
				replies++
			case k == 11: // COUNT
				cl.Script = append(cl.Script, simrt.Op{Kind: "send", Msg: &simrt.Msg{T: "COUNT", Sub: "c", Filters: fam[0]}})
				replies++
			case k == 12:
				if !paused {
					cl.Script = append(cl.Script, simrt.Op{Kind: "pause"})
					paused = true
				}
			case k == 13:
				if paused {
					cl.Script = append(cl.Script, simrt.Op{Kind: "resume"})
					paused = false
				}
			default: // await own replies so far
				if !paused && replies > 0 {
					cl.Script = append(cl.Script, simrt.Op{Kind: "await", N: replies})
				}
			}
		}
		switch rapid.IntRange(0, 9).Draw(t, "end") {
		case 0, 1:
			cl.Script = append(cl.Script, simrt.Op{Kind: "cancel"})
		case 2:
			cl.Script = append(cl.Script, simrt.Op{Kind: "closerecv"})
		}
		c.Clients = append(c.Clients, cl)
	}
	c.Sched = GenSchedule(t, 1200)
	return c
}

type c07Inc struct { // subscription incarnation
	conn    int
	sub     string
	filters []*mocrelay.ReqFilter
	r       int64 // REQ send started
	q       int64 // EOSE received (MaxInt64: never)
	x       int64 // end started (CLOSE / replacing REQ sent, cancel, close of inbound) (MaxInt64: never)
	y       int64 // definitely ended (MaxInt64: unknown)
}

type c07Pub struct {
	conn int
	idx  int // order of publication on that connection
	ev   *mocrelay.Event
	s    int64 // EVENT send started
	o    int64 // OK received (MaxInt64: never)
}

const inf = int64(math.MaxInt64)

func (c07Engine) Exec(t *testing.T, cc any) *simrt.Result {
	c := cc.(*C07Case)
	return simrt.Run(t, c.Sched, 60000, func(sim *simrt.Sim) {
		router := mocrelay.NewRouterHandler(c.Buflen)
		root, cancelAll := context.WithCancel(context.Background())
		defer cancelAll()
		var cls []*simrt.Client
		for i, cl := range c.Clients {
			k := sim.NewClient(root, fmt.Sprintf("c%d", i), cl.Script)
			k.IsReply = func(m mocrelay.ServerMsg) bool { _, ev := m.(*mocrelay.ServerEventMsg); return !ev }
			cls = append(cls, k)
		}
		for _, k := range cls {
			k.Serve(router)
		}
		st := sim.Drive()
		if st != simrt.Quiescent {
			sim.Violate("C07", "deadlock", nil, "scheduler status %d: %v", st, sim.S.ParkedNames())
			return
		}
		// ---- non-delay: at this quiescent point, with zero clock advance, every
		// connection whose own reader is active has all replies to everything the
		// router accepted from it, whatever the other readers do.
		anyPaused := false
		for _, k := range cls {
			if k.Paused() {
				anyPaused = true
			}
		}
		for _, k := range cls {
			if k.Paused() || k.CancelStamp != 0 || k.CloseStamp != 0 {
				continue
			}
			want, got := 0, 0
			for _, s := range k.Sent {
				if s.Accepted != 0 && c07Replies(s.Msg) {
					want++
				}
			}
			for _, g := range k.Got {
				if k.IsReply(g.Msg) {
					got++
				}
			}
			if got < want || !k.ScriptDone.Load() {
				cl := "publisher-delayed"
				if !anyPaused {
					cl = "reply-missing"
				}
				sim.Violate("C07", cl, nil, "connection %s (reader active) has %d replies for %d accepted requests, script done=%v, at quiescence with zero clock advance", k.Name, got, want, k.ScriptDone.Load())
			}
		}
		if anyPaused {
			sim.Res.Stats.Fault("reader-stall")
		}
		// let every script finish and every live reader drain
		for i := 0; i < 64; i++ {
			done := true
			for _, k := range cls {
				if k.Paused() || !k.ScriptDone.Load() {
					done = false
				}
			}
			if done {
				break
			}
			for _, k := range cls {
				k.Resume()
			}
			if st = sim.Drive(); st != simrt.Quiescent {
				sim.Violate("C07", "deadlock", nil, "scheduler status %d after resume: %v", st, sim.S.ParkedNames())
				return
			}
		}
		for _, k := range cls {
			if !k.ScriptDone.Load() {
				// every reader is active and nothing moves any more, yet this client
				// still waits for a reply (or for its message to be taken): "every REQ
				// is answered by EOSE and every EVENT by an accepting OK"
				sim.Violate("C07", "reply-missing", map[string]string{"at": "final-quiescence"}, "connection %s: all readers active and the system quiescent, but the client still waits (it has handed over %d messages and received %d messages)", k.Name, len(k.Sent), len(k.Got))
				return
			}
		}
		c07Judge(sim, c, cls)
		// teardown
		cancelAll()
		for _, k := range cls {
			k.Stop()
		}
		if sim.Drive() == simrt.Quiescent {
			sim.Res.Stats.Completed = true
		}
	})
}

func c07Replies(m mocrelay.ClientMsg) bool {
	switch m.(type) {
	case *mocrelay.ClientReqMsg, *mocrelay.ClientEventMsg, *mocrelay.ClientCountMsg:
		return true
	}
	return false
}

func c07Judge(sim *simrt.Sim, c *C07Case, cls []*simrt.Client) {
	stats := &sim.Res.Stats
	var incs []*c07Inc
	var pubs []*c07Pub
	pubByID := map[string]*c07Pub{}
	type reqRef struct {
		sent *simrt.Sent
		inc  *c07Inc
		pub  *c07Pub
	}
	for ci, k := range cls {
		ended := k.CancelStamp != 0 || k.CloseStamp != 0
		endStart := inf
		if k.CancelStamp != 0 {
			endStart = k.CancelStamp
		}
		if k.CloseStamp != 0 && k.CloseStamp < endStart {
			endStart = k.CloseStamp
		}
		if ended {
			stats.Fault("disconnect")
		}
		// requests in order; open incarnation per sub id
		var reqs []reqRef
		open := map[string]*c07Inc{}
		pubIdx := 0
		for _, s := range k.Sent {
			switch m := s.Msg.(type) {
			case *mocrelay.ClientReqMsg:
				inc := &c07Inc{conn: ci, sub: m.SubscriptionID, filters: m.ReqFilters, r: s.Invoke, q: inf, x: endStart, y: inf}
				if old := open[m.SubscriptionID]; old != nil && s.Invoke < old.x {
					old.x = s.Invoke
				}
				incs = append(incs, inc)
				reqs = append(reqs, reqRef{sent: s, inc: inc})
				open[m.SubscriptionID] = inc
			case *mocrelay.ClientEventMsg:
				p := &c07Pub{conn: ci, idx: pubIdx, ev: m.Event, s: s.Invoke, o: inf}
				pubIdx++
				pubs = append(pubs, p)
				pubByID[m.Event.ID] = p
				reqs = append(reqs, reqRef{sent: s, pub: p})
			case *mocrelay.ClientCountMsg:
				reqs = append(reqs, reqRef{sent: s})
			case *mocrelay.ClientCloseMsg:
				if old := open[m.SubscriptionID]; old != nil {
					if s.Invoke < old.x {
						old.x = s.Invoke
					}
					delete(open, m.SubscriptionID)
				}
			}
		}
		// match replies FIFO
		ri := 0
		for _, g := range k.Got {
			if _, isEv := g.Msg.(*mocrelay.ServerEventMsg); isEv {
				continue
			}
			if ri >= len(reqs) {
				sim.Violate("C07", "unsolicited-reply", nil, "connection %s received %s with no request outstanding", k.Name, simrt.DescribeServer(g.Msg))
				continue
			}
			rq := reqs[ri]
			ri++
			okType := false
			switch m := rq.sent.Msg.(type) {
			case *mocrelay.ClientReqMsg:
				if e, ok := g.Msg.(*mocrelay.ServerEOSEMsg); ok && e.SubscriptionID == m.SubscriptionID {
					okType = true
					rq.inc.q = g.Stamp
				}
			case *mocrelay.ClientEventMsg:
				if e, ok := g.Msg.(*mocrelay.ServerOKMsg); ok && e.EventID == m.Event.ID && e.Accepted {
					okType = true
					rq.pub.o = g.Stamp
				}
			case *mocrelay.ClientCountMsg:
				if e, ok := g.Msg.(*mocrelay.ServerCountMsg); ok && e.SubscriptionID == m.SubscriptionID {
					okType = true
				}
			}
			if !okType {
				sim.Violate("C07", "wrong-reply", nil, "connection %s: request #%d (%s) answered by %s", k.Name, ri-1, rq.sent.Msg.ClientMsgLabel(), simrt.DescribeServer(g.Msg))
			}
			// this reply settles y for every incarnation whose ending message was
			// accepted before this request was sent
			for _, inc := range incs {
				if inc.conn == ci && inc.y == inf && inc.x != inf && inc.x < rq.sent.Invoke && rq.inc != inc {
					inc.y = g.Stamp
				}
			}
		}
		// a replacing REQ (x == its Invoke) is not "sent after x"; its own EOSE settles it
		for _, rq := range reqs[:ri] {
			if rq.inc == nil || rq.inc.q == inf {
				continue
			}
			for _, inc := range incs {
				if inc != rq.inc && inc.conn == ci && inc.sub == rq.inc.sub && inc.x == rq.inc.r && inc.y > rq.inc.q {
					inc.y = rq.inc.q
				}
			}
		}
		if k.Returned.Load() {
			for _, inc := range incs {
				if inc.conn == ci && inc.y > k.ReturnStamp {
					inc.y = k.ReturnStamp
				}
			}
		}
		// completeness of replies for live, drained connections
		if !ended {
			acc := 0
			for _, rq := range reqs {
				if rq.sent.Accepted != 0 {
					acc++
				}
			}
			if ri != acc {
				sim.Violate("C07", "reply-missing", nil, "connection %s: %d replies for %d accepted requests after draining", k.Name, ri, acc)
			}
		}
	}

	// deliveries
	type dkey struct {
		conn int
		sub  string
		id   string
	}
	delivered := map[dkey]int{}
	for ci, k := range cls {
		lastIdx := map[[2]string]int{} // (sub, publisher conn) -> last publication index
		for _, g := range k.Got {
			e, ok := g.Msg.(*mocrelay.ServerEventMsg)
			if !ok {
				continue
			}
			p := pubByID[e.Event.ID]
			if p == nil {
				sim.Violate("C07", "unknown-event", nil, "connection %s received an event nobody published: %s", k.Name, simrt.DescribeServer(g.Msg))
				continue
			}
			if e.Event != p.ev {
				sim.Violate("C07", "altered-event", nil, "connection %s received a different event object for %s", k.Name, ref.Short(p.ev.ID))
			}
			delivered[dkey{ci, e.SubscriptionID, e.Event.ID}]++
			key := [2]string{e.SubscriptionID, fmt.Sprint(p.conn)}
			if last, ok := lastIdx[key]; ok && p.idx < last {
				sim.Violate("C07", "order", nil, "connection %s sub %s: event #%d of publisher c%d delivered after its event #%d", k.Name, e.SubscriptionID, p.idx, p.conn, last)
			}
			lastIdx[key] = p.idx
			// is there any incarnation that may have received it?
			allowed := false
			for _, inc := range incs {
				if inc.conn != ci || inc.sub != e.SubscriptionID {
					continue
				}
				if !ref.MatchAny(p.ev, inc.filters) {
					continue
				}
				if p.o < inc.r || inc.y < p.s {
					continue
				}
				allowed = true
			}
			if !allowed {
				why := "no subscription with that id on this connection"
				for _, inc := range incs {
					if inc.conn == ci && inc.sub == e.SubscriptionID {
						switch {
						case !ref.MatchAny(p.ev, inc.filters):
							why = "filters do not match"
						case p.o < inc.r:
							why = "publisher had its OK before the REQ was sent"
						case inc.y < p.s:
							why = "subscription was closed/replaced/finished before the EVENT was sent"
						}
					}
				}
				sim.Violate("C07", "must-not-deliver", map[string]string{"why": why}, "connection %s sub %s received %s: %s", k.Name, e.SubscriptionID, ref.Short(p.ev.ID), why)
			}
		}
	}
	for k, n := range delivered {
		if n > 1 {
			sim.Violate("C07", "duplicate-delivery", nil, "connection c%d sub %s received event %s %d times", k.conn, k.sub, ref.Short(k.id), n)
		}
	}
	// must-deliver
	for _, inc := range incs {
		k := cls[inc.conn]
		if k.CancelStamp != 0 || k.CloseStamp != 0 {
			continue // connection ended during the run: queued deliveries may legitimately be lost
		}
		for _, p := range pubs {
			racing := inc.x != inf && p.s < inc.x && inc.x < p.o
			if racing {
				stats.Probe("close_or_replace_racing_publish")
			}
			if !(ref.MatchAny(p.ev, inc.filters) && inc.q < p.s && p.o < inc.x) {
				continue
			}
			stats.Probe("must_deliver")
			if delivered[dkey{inc.conn, inc.sub, p.ev.ID}] > 0 {
				continue
			}
			// excused only when the connection's queue can have been full while the
			// event was being published: at least buflen other deliveries (other events, or this event for another
			// subscription of the same connection) whose
			// publication began before p's OK were received on it after p was sent
			n := 0
			for _, g := range k.Got {
				e, ok := g.Msg.(*mocrelay.ServerEventMsg)
				if !ok || g.Stamp < p.s {
					continue
				}
				if q := pubByID[e.Event.ID]; q != nil && (q != p || e.SubscriptionID != inc.sub) && q.s < p.o {
					n++
				}
			}
			if n >= c.Buflen {
				stats.Probe("drop_on_full")
				stats.Fault("queue-full-drop")
				continue
			}
			sim.Violate("C07", "lost-delivery", nil,
				"connection %s sub %s (EOSE received at %d, open until %d) never received %s published in [%d,%d]; only %d other events can have occupied its queue of %d",
				k.Name, inc.sub, inc.q, inc.x, ref.Short(p.ev.ID), p.s, p.o, n, c.Buflen)
		}
	}
	// abstract state: per connection (#open subs at the end, #deliveries capped)
	h := fnv.New64a()
	for ci, k := range cls {
		d := 0
		for _, g := range k.Got {
			if _, ok := g.Msg.(*mocrelay.ServerEventMsg); ok {
				d++
			}
		}
		if d > 3 {
			d = 3
		}
		op := 0
		for _, inc := range incs {
			if inc.conn == ci && inc.x == inf {
				op++
			}
		}
		fmt.Fprintf(h, "%d:%d:%d:%v|", ci, op, d, k.Returned.Load())
	}
	stats.State(h.Sum64())
	stats.NonTrivial = sim.S.Switches > len(cls)*3 && len(pubs) > 0 && len(incs) > 0
}
