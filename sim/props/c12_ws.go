package props

import (
	"math"
	"bytes"
	"context"
	"crypto/sha256"
	"encoding/hex"
	"encoding/json"
	"fmt"
	"hash/fnv"
	"strings"
	"testing"
	"time"

	"github.com/btcsuite/btcd/btcec/v2/schnorr"
	"github.com/coder/websocket"
	"github.com/high-moctane/mocrelay"
	"github.com/high-moctane/mocrelay/verifsim"
	"pgregory.net/rapid"
	"verif.local/sim/ref"
	"verif.local/sim/simrt"
)

// C12: a real coder/websocket client talks to the real ServeMux -> Relay over a
// simulated connection (chunked, scheduled, stallable); behind the relay a
// recording handler emits its own stream. C13 (WebSocket clause) reuses the
// harness: a peer that stops reading must be dropped after the send timeout.

type wsFrame struct {
	Kind        string     `json:"kind"` // "valid" or the name of the corruption
	Binary      bool       `json:"binary,omitempty"`
	Payload     []byte     `json:"payload"`
	Deliverable bool       `json:"deliverable"`
	Msg         *simrt.Msg `json:"msg,omitempty"`   // what the handler must receive (deliverable frames)
	Names       string     `json:"names,omitempty"` // event id / subscription id a specific rejection would name
}

type wsOpt struct {
	SendTimeoutMs int     `json:"send_timeout_ms"`
	PingMs        int     `json:"ping_ms"`
	Rate          float64 `json:"rate"`
	Burst         int     `json:"burst"`
	MaxLen        int64   `json:"max_len"`
}

type WSCase struct {
	Opt    wsOpt            `json:"opt"`
	Conn   simrt.SimConnCfg `json:"conn"`
	Frames []wsFrame        `json:"frames"`
	Emit   []mwDown         `json:"emit"`
	Events []simrt.EvSpec   `json:"events"`
	Jumps  []int            `json:"jumps"` // clock jumps (ms) between driving rounds
	// StallBurst > 0: the peer stops reading right after the handshake while the
	// handler emits StallBurst extra messages and the client sends its frames
	// (back-pressure on the relay's outgoing path); it resumes reading well
	// before the send timeout.
	StallBurst int `json:"stall_burst,omitempty"`
	// Companion: authentic EVENTs a second client sends over its own connection
	// to the same relay while the first session runs (sessions must not affect
	// each other's validation).
	Companion []simrt.EvSpec `json:"companion,omitempty"`
	Sched     simrt.Schedule `json:"sched"`
}

type wsEngine struct{}

func init() { register("ws-session", wsEngine{}, "C12") }

func (wsEngine) Decode(b []byte) (any, error) {
	var c WSCase
	err := json.Unmarshal(b, &c)
	return &c, err
}

// ---- own wire encoder (the repository's codec is under test)

func evJSON(e *mocrelay.Event) map[string]any {
	tags := make([][]string, len(e.Tags))
	for i, t := range e.Tags {
		tags[i] = []string(t)
	}
	return map[string]any{"id": e.ID, "pubkey": e.Pubkey, "created_at": e.CreatedAt, "kind": e.Kind, "tags": tags, "content": e.Content, "sig": e.Sig}
}

func filterJSON(f *simrt.FilterSpec) map[string]any {
	o := map[string]any{}
	if f.IDs != nil || f.EmptyIDs {
		o["ids"] = append([]string{}, f.IDs...)
	}
	if f.Authors != nil || f.EmptyAuthors {
		o["authors"] = append([]string{}, f.Authors...)
	}
	if f.Kinds != nil || f.EmptyKinds {
		o["kinds"] = append([]int64{}, f.Kinds...)
	}
	for k, v := range f.Tags {
		o["#"+k] = append([]string{}, v...)
	}
	if f.Since != nil {
		o["since"] = *f.Since
	}
	if f.Until != nil {
		o["until"] = *f.Until
	}
	if f.Limit != nil {
		o["limit"] = *f.Limit
	}
	return o
}

func msgWire(m *simrt.Msg) []any {
	switch m.T {
	case "EVENT", "AUTH":
		return []any{m.T, evJSON(m.Ev.Event())}
	case "CLOSE":
		return []any{"CLOSE", m.Sub}
	default:
		a := []any{m.T, m.Sub}
		for i := range m.Filters {
			a = append(a, filterJSON(&m.Filters[i]))
		}
		return a
	}
}

func marshalNoEscape(v any) []byte {
	var b bytes.Buffer
	enc := json.NewEncoder(&b)
	enc.SetEscapeHTML(false)
	enc.Encode(v)
	return bytes.TrimRight(b.Bytes(), "\n")
}

var wsContents = []string{"hello", "<b>bold</b> & more", "line\nbreak\ttab \"quoted\" back\\slash", "sep   and  ", "astral \U0001F600\U0001F4A9", "ctl \u0001\u001f\u007f", "日本語", "literal \\u2028 and \\\\u2029 and \\u003c text", ""}

// subscription ids are client-chosen strings that handlers echo: anything a
// JSON string can hold
var wsSubIDs = []string{"e", "e", "sub id ", "q\"uote\\", "ctl\u0001\u007f", "<&>", "sep\u2028\u2029", "日本\U0001F600", "\t\n"}

// wsClientSub: the subscription id of a client message is an opaque string; one
// in three is wrapped in characters a parser might be tempted to normalise
// (surrounding whitespace, quotes, control and multi-byte characters).
func wsClientSub(t *rapid.T, base string) string {
	switch rapid.IntRange(0, 5).Draw(t, "subform") {
	case 0:
		return rapid.SampledFrom([]string{" ", "\t", "\n", "\u00a0", "\u2028", "A"}).Draw(t, "subpre") + base
	case 1:
		return base + rapid.SampledFrom(wsSubIDs).Draw(t, "subsuf")
	}
	return base
}

func genWSMsg(t *rapid.T, c *WSCase, i int) *simrt.Msg {
	mkEv := func(kind int64) *simrt.EvSpec {
		e := simrt.EvSpec{Author: rapid.IntRange(0, 3).Draw(t, "author"), Kind: kind, CreatedAt: int64(rapid.IntRange(0, 2000000000).Draw(t, "created_at")),
			Content: rapid.SampledFrom(wsContents).Draw(t, "content") + fmt.Sprintf(" #%d", i), Sign: true}
		if rapid.IntRange(0, 9).Draw(t, "xts") == 0 {
			e.CreatedAt = rapid.SampledFrom([]int64{0, math.MaxInt64, math.MaxInt64 - 1, 1 << 53, 1<<53 + 1}).Draw(t, "xtsv")
		}
		for j, n := 0, rapid.IntRange(0, 3).Draw(t, "ntags"); j < n; j++ {
			switch rapid.IntRange(0, 4).Draw(t, "tagk") {
			case 0:
				e.Tags = append(e.Tags, []string{"t", rapid.SampledFrom(wsContents).Draw(t, "tagv")})
			case 1:
				e.Tags = append(e.Tags, []string{"p", ref.Authors[0].Pubkey, "wss://r.example", "mention"})
			case 2:
				e.Tags = append(e.Tags, []string{"a", fmt.Sprintf("30000:%s:plain", ref.Authors[1].Pubkey)})
			case 3:
				e.Tags = append(e.Tags, []string{"client", "verif"})
			default:
				e.Tags = append(e.Tags, []string{"d", rapid.SampledFrom([]string{"", "x", "with:colon"}).Draw(t, "d")})
			}
		}
		return &e
	}
	switch rapid.IntRange(0, 9).Draw(t, "mt") {
	case 0, 1, 2, 3:
		return &simrt.Msg{T: "EVENT", Ev: mkEv(rapid.SampledFrom([]int64{0, 1, 5, 7, 10002, 20001, 30000, 65535}).Draw(t, "kind"))}
	case 4, 5, 6:
		m := &simrt.Msg{T: "REQ", Sub: wsClientSub(t, fmt.Sprintf("sub%d", i))}
		for j, n := 0, rapid.IntRange(1, 2).Draw(t, "nf"); j < n; j++ {
			f := simrt.FilterSpec{}
			i64 := func(v int) *int64 { x := int64(v); return &x }
			if rapid.IntRange(0, 1).Draw(t, "fk") == 0 {
				f.Kinds = []int64{rapid.SampledFrom([]int64{0, 1, 65535}).Draw(t, "k")}
			}
			if rapid.IntRange(0, 2).Draw(t, "fa") == 0 {
				f.Authors = []string{ref.Authors[0].Pubkey}
			}
			if rapid.IntRange(0, 2).Draw(t, "fl") == 0 {
				f.Limit = i64(rapid.IntRange(0, 100).Draw(t, "lim"))
				if rapid.IntRange(0, 7).Draw(t, "xlim") == 0 {
					f.Limit = i64(math.MaxInt64)
				}
			}
			if rapid.IntRange(0, 3).Draw(t, "fs") == 0 {
				f.Since = i64(rapid.IntRange(0, 10).Draw(t, "since"))
				f.Until = i64(10 + rapid.IntRange(0, 10).Draw(t, "until"))
				if rapid.IntRange(0, 5).Draw(t, "xuntil") == 0 {
					f.Until = i64(math.MaxInt64)
				}
			}
			switch rapid.IntRange(0, 5).Draw(t, "ft") {
			case 0:
				f.Tags = map[string][]string{"t": {rapid.SampledFrom(wsContents).Draw(t, "tv")}}
			case 1:
				f.Tags = map[string][]string{"a": {fmt.Sprintf("30000:%s:%s", ref.Authors[1].Pubkey, rapid.SampledFrom([]string{"", "plain", "with:colon", "a:b:c"}).Draw(t, "ad"))}}
			case 2:
				f.Tags = map[string][]string{"e": {strings.Repeat("ab", 32)}, "p": {ref.Authors[2].Pubkey}}
			}
			m.Filters = append(m.Filters, f)
		}
		return m
	case 7:
		return &simrt.Msg{T: "CLOSE", Sub: wsClientSub(t, fmt.Sprintf("sub%d", rapid.IntRange(0, 9).Draw(t, "csub")))}
	case 8:
		return &simrt.Msg{T: "COUNT", Sub: wsClientSub(t, fmt.Sprintf("cnt%d", i)), Filters: []simrt.FilterSpec{{Kinds: []int64{1}}}}
	default:
		return &simrt.Msg{T: "AUTH", Ev: mkEv(22242)}
	}
}

// wsPretty inserts the whitespace ws after every structural [ { , : and before
// every ] } of a JSON text (outside strings).
func wsPretty(b []byte, ws string) []byte {
	var out []byte
	inStr, esc := false, false
	for _, ch := range b {
		if inStr {
			out = append(out, ch)
			switch {
			case esc:
				esc = false
			case ch == '\\':
				esc = true
			case ch == '"':
				inStr = false
			}
			continue
		}
		switch ch {
		case '"':
			inStr = true
			out = append(out, ch)
		case '[', '{', ',', ':':
			out = append(out, ch)
			out = append(out, ws...)
		case ']', '}':
			out = append(out, ws...)
			out = append(out, ch)
		default:
			out = append(out, ch)
		}
	}
	return out
}

// offCurvePubkey is a 32-byte value that is not the x coordinate of a point of
// secp256k1 (found by search at start-up).
var offCurvePubkey = func() string {
	for i := 0; ; i++ {
		h := sha256.Sum256([]byte(fmt.Sprintf("verif-offcurve-%d", i)))
		if _, err := schnorr.ParsePubKey(h[:]); err != nil {
			return hex.EncodeToString(h[:])
		}
	}
}()

// corrupt derives one labelled corruption of a valid message.
func corruptFrame(t *rapid.T, m *simrt.Msg) wsFrame {
	wire := msgWire(m)
	valid := marshalNoEscape(wire)
	name := ""
	if m.Ev != nil {
		name = m.Ev.Event().ID
	} else {
		name = m.Sub
	}
	f := wsFrame{Deliverable: false, Names: name}
	evObj := func() map[string]any {
		if m.T == "EVENT" || m.T == "AUTH" {
			return evJSON(m.Ev.Event())
		}
		return nil
	}
	flipHex := func(s string, i int) string {
		b := []byte(s)
		if b[i] == 'a' {
			b[i] = 'b'
		} else {
			b[i] = 'a'
		}
		return string(b)
	}
	generic := []string{"binary", "invalid-utf8", "not-json", "unknown-label", "wrong-arity", "label-not-string", "trailing-garbage"}
	evOnly := []string{"pubkey-off-curve", "sig-r-out-of-range", "uppercase-id", "uppercase-sig", "mixedcase-sig", "uppercase-pubkey", "short-id", "kind-negative", "kind-too-large", "kind-string", "altered-content", "altered-id", "altered-pubkey", "altered-sig", "forged-sig", "missing-sig", "tags-not-array", "extra-member"}
	reqOnly := []string{"negative-since", "negative-limit", "unknown-filter-key", "filter-not-object", "subid-number", "ids-uppercase", "ids-unicode-digit", "authors-unicode-digit", "etag-unicode-digit", "atag-no-d-part", "atag-kind-not-number", "atag-short-pubkey", "kinds-string", "limit-fraction", "since-fraction", "kinds-fraction", "until-exponent-fraction"}
	pool := append([]string{}, generic...)
	switch m.T {
	case "EVENT":
		pool = append(pool, evOnly...)
		pool = append(pool, evOnly...)
	case "REQ", "COUNT":
		pool = append(pool, reqOnly...)
	}
	f.Kind = rapid.SampledFrom(pool).Draw(t, "corruption")
	switch f.Kind {
	case "binary":
		f.Binary, f.Payload = true, valid
	case "invalid-utf8":
		f.Payload = append(append([]byte(nil), valid[:len(valid)/2]...), 0xff, 0xfe)
		f.Payload = append(f.Payload, valid[len(valid)/2:]...)
	case "not-json":
		f.Payload = []byte(`["EVENT", {oops`)
	case "unknown-label":
		wire[0] = "FOO"
		f.Payload = marshalNoEscape(wire)
	case "wrong-arity":
		f.Payload = marshalNoEscape(wire[:1])
	case "label-not-string":
		wire[0] = 7
		f.Payload = marshalNoEscape(wire)
	case "trailing-garbage":
		f.Payload = append(append([]byte(nil), valid...), []byte(" x")...)
	case "uppercase-id":
		o := evObj()
		o["id"] = strings.ToUpper(o["id"].(string))
		f.Payload = marshalNoEscape([]any{m.T, o})
	case "uppercase-sig", "mixedcase-sig", "uppercase-pubkey":
		// the same bytes in another hex spelling: NIP-01 fixes lower case
		o := evObj()
		switch f.Kind {
		case "uppercase-sig":
			o["sig"] = strings.ToUpper(o["sig"].(string))
		case "uppercase-pubkey":
			o["pubkey"] = strings.ToUpper(o["pubkey"].(string))
		default:
			b := []byte(o["sig"].(string))
			for i := range b {
				if b[i] >= 'a' && b[i] <= 'f' {
					b[i] -= 'a' - 'A'
					break
				}
			}
			o["sig"] = string(b)
		}
		f.Payload = marshalNoEscape([]any{m.T, o})
	case "short-id":
		o := evObj()
		o["id"] = o["id"].(string)[:62]
		f.Payload = marshalNoEscape([]any{m.T, o})
	case "kind-negative", "kind-too-large":
		// a correctly signed event whose kind is outside 0..65535
		e := *m.Ev
		if f.Kind == "kind-negative" {
			e.Kind = -1
		} else {
			e.Kind = 65536
		}
		e2 := simrt.EvSpec{Author: e.Author, Kind: e.Kind, CreatedAt: e.CreatedAt, Tags: e.Tags, Content: e.Content, Sign: true}
		f.Payload = marshalNoEscape([]any{m.T, evJSON(e2.Event())})
		f.Names = e2.Event().ID
	case "pubkey-off-curve", "sig-r-out-of-range":
		// id is the correct hash of the fields, so verification gets as far as
		// parsing the key / the signature, which fails
		e := m.Ev.Event()
		pk, sig := e.Pubkey, e.Sig
		if f.Kind == "pubkey-off-curve" {
			pk = offCurvePubkey
		} else {
			sig = strings.Repeat("f", 64) + sig[64:]
		}
		tags := make([][]string, len(e.Tags))
		for i, tg := range e.Tags {
			tags[i] = []string(tg)
		}
		id := sha256.Sum256(ref.Canonical(pk, e.CreatedAt, e.Kind, tags, e.Content))
		o := evObj()
		o["pubkey"], o["sig"], o["id"] = pk, sig, hex.EncodeToString(id[:])
		f.Names = o["id"].(string)
		f.Payload = marshalNoEscape([]any{m.T, o})
	case "kind-string":
		o := evObj()
		o["kind"] = "1"
		f.Payload = marshalNoEscape([]any{m.T, o})
	case "altered-content":
		o := evObj()
		o["content"] = o["content"].(string) + "!"
		f.Payload = marshalNoEscape([]any{m.T, o})
	case "altered-id":
		o := evObj()
		o["id"] = flipHex(o["id"].(string), 5)
		f.Names = o["id"].(string)
		f.Payload = marshalNoEscape([]any{m.T, o})
	case "altered-pubkey":
		o := evObj()
		o["pubkey"] = ref.Authors[(m.Ev.Author+1)%4].Pubkey
		f.Payload = marshalNoEscape([]any{m.T, o})
	case "altered-sig":
		o := evObj()
		o["sig"] = flipHex(o["sig"].(string), 17)
		f.Payload = marshalNoEscape([]any{m.T, o})
	case "forged-sig":
		o := evObj()
		o["sig"] = strings.Repeat("0123456789abcdef", 8)
		f.Payload = marshalNoEscape([]any{m.T, o})
	case "missing-sig":
		o := evObj()
		delete(o, "sig")
		f.Payload = marshalNoEscape([]any{m.T, o})
	case "tags-not-array":
		o := evObj()
		o["tags"] = "none"
		f.Payload = marshalNoEscape([]any{m.T, o})
	case "extra-member":
		// NIP-01 defines exactly seven members; an unknown one is ignored by many
		// relays. The property does not list it: use a clearly ill-typed member set
		o := evObj()
		o["created_at"] = "yesterday"
		f.Payload = marshalNoEscape([]any{m.T, o})
	case "negative-since":
		w := msgWire(m)
		w[2].(map[string]any)["since"] = -5
		f.Payload = marshalNoEscape(w)
	case "negative-limit":
		w := msgWire(m)
		w[2].(map[string]any)["limit"] = -1
		f.Payload = marshalNoEscape(w)
	case "limit-fraction": // numbers of a filter are integers
		w := msgWire(m)
		w[2].(map[string]any)["limit"] = json.Number("2.5")
		f.Payload = marshalNoEscape(w)
	case "since-fraction":
		w := msgWire(m)
		w[2].(map[string]any)["since"] = json.Number("10.25")
		delete(w[2].(map[string]any), "until")
		f.Payload = marshalNoEscape(w)
	case "kinds-fraction":
		w := msgWire(m)
		w[2].(map[string]any)["kinds"] = []any{json.Number("1.9")}
		f.Payload = marshalNoEscape(w)
	case "until-exponent-fraction":
		w := msgWire(m)
		w[2].(map[string]any)["until"] = json.Number("1.5e0")
		delete(w[2].(map[string]any), "since")
		f.Payload = marshalNoEscape(w)
	case "unknown-filter-key":
		w := msgWire(m)
		w[2].(map[string]any)["foo"] = 1
		f.Payload = marshalNoEscape(w)
	case "filter-not-object":
		w := msgWire(m)
		w[2] = []int{1, 2}
		f.Payload = marshalNoEscape(w)
	case "subid-number":
		w := msgWire(m)
		w[1] = 5
		f.Payload = marshalNoEscape(w)
	case "ids-uppercase":
		w := msgWire(m)
		w[2].(map[string]any)["ids"] = []string{strings.Repeat("AB", 32)}
		f.Payload = marshalNoEscape(w)
	case "ids-unicode-digit", "authors-unicode-digit", "etag-unicode-digit":
		// 64 bytes of UTF-8 that are not 64 hex digits: 62 hex characters and
		// one two-byte decimal digit of another script
		v := strings.Repeat("ab", 31) + "\u0663"
		w := msgWire(m)
		fm := w[2].(map[string]any)
		switch f.Kind {
		case "ids-unicode-digit":
			fm["ids"] = []string{v}
		case "authors-unicode-digit":
			fm["authors"] = []string{v}
		default:
			fm["#e"] = []string{v}
		}
		f.Payload = marshalNoEscape(w)
	case "atag-no-d-part", "atag-kind-not-number", "atag-short-pubkey":
		// addresses are kind:pubkey:d - the d part may be empty, the second colon
		// may not be missing
		w := msgWire(m)
		fm := w[2].(map[string]any)
		pk := ref.Authors[1].Pubkey
		fm["#a"] = []string{map[string]string{"atag-no-d-part": "30000:" + pk, "atag-kind-not-number": "x:" + pk + ":d", "atag-short-pubkey": "30000:" + pk[:62] + ":d"}[f.Kind]}
		f.Payload = marshalNoEscape(w)
	case "kinds-string":
		w := msgWire(m)
		w[2].(map[string]any)["kinds"] = []string{"1"}
		f.Payload = marshalNoEscape(w)
	}
	return f
}

func (wsEngine) Gen(t *rapid.T, tier string) any {
	c := &WSCase{}
	c.Opt = wsOpt{
		SendTimeoutMs: rapid.SampledFrom([]int{1000, 10000}).Draw(t, "sendtimeout"),
		PingMs:        rapid.SampledFrom([]int{0, 5000, 60000}).Draw(t, "ping"),
		Rate:          rapid.SampledFrom([]float64{10, 100, 1000}).Draw(t, "rate"),
		Burst:         rapid.SampledFrom([]int{1, 10}).Draw(t, "burst"),
		MaxLen:        rapid.SampledFrom([]int64{100000, 100000, 4000}).Draw(t, "maxlen"),
	}
	c.Conn.Chunk = rapid.SampledFrom([]int{1, 7, 16, 64, 512, 4096, 65536}).Draw(t, "chunk")
	maxF := 8
	if tier == "thorough" {
		maxF = 16
	}
	nf := rapid.IntRange(1, maxF).Draw(t, "nframes")
	for i := 0; i < nf; i++ {
		m := genWSMsg(t, c, i)
		if rapid.IntRange(0, 2).Draw(t, "corrupt") == 0 {
			c.Frames = append(c.Frames, corruptFrame(t, m))
			continue
		}
		if rapid.IntRange(0, 5).Draw(t, "altered-copy") == 0 {
			// an altered copy of an authentic event that was already accepted on
			// this relay: same id and signature, one signed field changed
			var prev *wsFrame
			for j := range c.Frames {
				if c.Frames[j].Deliverable && c.Frames[j].Msg.T == "EVENT" {
					prev = &c.Frames[j]
				}
			}
			if prev != nil {
				o := evJSON(prev.Msg.Ev.Event())
				o["content"] = o["content"].(string) + " (edited)"
				if rapid.IntRange(0, 1).Draw(t, "sigreuse") == 0 {
					// a forgery that borrows the signature of the accepted event:
					// other content and author, an id that is the correct hash of
					// its own fields
					pe := prev.Msg.Ev.Event()
					pk := ref.Authors[(prev.Msg.Ev.Author+1)%4].Pubkey
					content := "forged " + pe.Content
					id := sha256.Sum256(ref.Canonical(pk, pe.CreatedAt, pe.Kind, nil, content))
					o = map[string]any{"id": hex.EncodeToString(id[:]), "pubkey": pk, "created_at": pe.CreatedAt, "kind": pe.Kind, "tags": [][]string{}, "content": content, "sig": pe.Sig}
					c.Frames = append(c.Frames, wsFrame{Kind: "signature-of-accepted-reused", Payload: marshalNoEscape([]any{"EVENT", o}), Names: hex.EncodeToString(id[:])})
					continue
				}
				c.Frames = append(c.Frames, wsFrame{Kind: "altered-copy-of-accepted", Payload: marshalNoEscape([]any{"EVENT", o}), Names: prev.Msg.Ev.Event().ID})
				continue
			}
		}
		pl := marshalNoEscape(msgWire(m))
		if rapid.IntRange(0, 3).Draw(t, "pretty") == 0 {
			// the same JSON text with insignificant whitespace (space, tab, LF, CR)
			pl = wsPretty(pl, rapid.SampledFrom([]string{" ", "\n  ", "\r\n\t", "\t", "\r", " \r\n "}).Draw(t, "ws"))
			// ... and after the whole text (line-oriented clients end with a newline).
			// Not before it: the relay takes a message to start with "[" (DESIGN 9)
			pl = append(pl, rapid.SampledFrom([]string{"", "\n", "\r\n", " ", "\t"}).Draw(t, "wstrail")...)
		}
		c.Frames = append(c.Frames, wsFrame{Kind: "valid", Payload: pl, Deliverable: true, Msg: m})
	}
	if rapid.IntRange(0, 1).Draw(t, "atlimit") == 0 && (c.Opt.MaxLen == 4000 || rapid.IntRange(0, 2).Draw(t, "atbiglimit") == 0) {
		// a valid, authentic EVENT whose frame is exactly as long as the
		// configured limit allows, or a little shorter
		target := int(c.Opt.MaxLen) - rapid.SampledFrom([]int{0, 0, 1, 2, 19}).Draw(t, "below")
		if c.Opt.MaxLen > 4000 {
			// also well inside a large limit
			target -= rapid.SampledFrom([]int{0, 0, 60000}).Draw(t, "inside")
			c.Conn.Chunk = max(c.Conn.Chunk, 512)
		}
		e0 := simrt.EvSpec{Author: rapid.IntRange(0, 3).Draw(t, "lauthor"), Kind: 1, CreatedAt: 1700000000, Sign: true}
		e := e0
		e.Content = strings.Repeat("x", target-len(marshalNoEscape(msgWire(&simrt.Msg{T: "EVENT", Ev: &e0}))))
		m := &simrt.Msg{T: "EVENT", Ev: &e}
		f := wsFrame{Kind: "valid", Payload: marshalNoEscape(msgWire(m)), Deliverable: true, Msg: m}
		if len(f.Payload) != target {
			panic("frame padding")
		}
		at := rapid.IntRange(0, len(c.Frames)).Draw(t, "limitpos")
		c.Frames = append(c.Frames[:at], append([]wsFrame{f}, c.Frames[at:]...)...)
	}
	for i := 0; i < 3; i++ {
		c.Events = append(c.Events, simrt.EvSpec{Author: i, Kind: 1, CreatedAt: int64(100 + i), Content: wsContents[(i*3+1)%len(wsContents)], Sign: true,
			Tags: [][]string{{"t", wsContents[(i+3)%len(wsContents)]}}})
	}
	for i, n := 0, rapid.IntRange(0, 8).Draw(t, "nemit"); i < n; i++ {
		c.Emit = append(c.Emit, mwDown{T: rapid.SampledFrom([]string{"EOSE", "EVENT", "EVENT", "OK", "NOTICE", "CLOSED", "COUNT", "AUTH"}).Draw(t, "et"), Sub: rapid.SampledFrom(wsSubIDs).Draw(t, "esub") + fmt.Sprintf("%d", i), Ev: rapid.IntRange(0, 2).Draw(t, "eev")})
	}
	for i, n := 0, rapid.IntRange(0, 3).Draw(t, "njumps"); i < n; i++ {
		c.Jumps = append(c.Jumps, rapid.SampledFrom([]int{100, 1000, 4999, 5001, 61000}).Draw(t, "jump"))
	}
	if rapid.IntRange(0, 5).Draw(t, "reset") == 0 {
		// connection reset at an arbitrary byte of the client's stream (the
		// handshake request is not part of it)
		total := 0
		for i := range c.Frames {
			total += len(c.Frames[i].Payload) + 8
		}
		c.Conn.ResetAtC2S = int64(rapid.IntRange(1, total).Draw(t, "reset.at"))
	} else if c.Opt.Rate >= 100 && rapid.IntRange(0, 3).Draw(t, "stallburst") == 0 {
		c.StallBurst = rapid.SampledFrom([]int{3, 70, 150}).Draw(t, "burst")
	}
	if rapid.IntRange(0, 2).Draw(t, "companion") == 0 {
		for i, n := 0, rapid.IntRange(1, 6).Draw(t, "ncomp"); i < n; i++ {
			c.Companion = append(c.Companion, simrt.EvSpec{Author: rapid.IntRange(0, 3).Draw(t, "cauthor"), Kind: 1, CreatedAt: int64(500 + i),
				Content: strings.Repeat(rapid.SampledFrom(wsContents).Draw(t, "ccontent"), rapid.IntRange(1, 4).Draw(t, "crep")) + fmt.Sprintf(" c#%d", i), Sign: true})
		}
	}
	c.Sched = GenSchedule(t, 4000)
	return c
}

type wsCompanionKey struct{}

// wsDispatch gives every session its own recording handler: the companion's
// request context carries wsCompanionKey.
type wsDispatch struct{ main, comp *wsHandler }

func (d *wsDispatch) ServeNostr(ctx context.Context, send chan<- mocrelay.ServerMsg, recv <-chan mocrelay.ClientMsg) error {
	if ctx.Value(wsCompanionKey{}) != nil {
		return d.comp.ServeNostr(ctx, send, recv)
	}
	return d.main.ServeNostr(ctx, send, recv)
}

// ---- recording handler behind the relay

type wsHandler struct {
	sim     *simrt.Sim
	emit    []mocrelay.ServerMsg
	recvd   []mocrelay.ClientMsg
	emitted int
	done    bool
	flood   bool // keep emitting for ever (stall scenario)
	name    string
}

func (h *wsHandler) ServeNostr(ctx context.Context, send chan<- mocrelay.ServerMsg, recv <-chan mocrelay.ClientMsg) error {
	nm := "wsh"
	if h.name != "" {
		nm = h.name
	}
	verifsim.NameMe(nm)
	fin := make(chan struct{})
	go func() {
		defer close(fin)
		verifsim.NameMe(nm + ".em")
		for i := 0; ; i++ {
			var m mocrelay.ServerMsg
			if h.flood {
				// paced, so that the system reaches quiescence between emissions
				select {
				case <-time.After(5 * time.Millisecond):
				case <-ctx.Done():
					return
				}
				m = mocrelay.NewServerNoticeMsg(fmt.Sprintf("flood %06d %s", i, strings.Repeat("x", 200)))
			} else if i < len(h.emit) {
				m = h.emit[i]
			} else {
				return
			}
			verifsim.Yield("wsh.em")
			select {
			case send <- m:
				h.emitted++
			case <-ctx.Done():
				return
			}
		}
	}()
	defer func() { <-fin; h.done = true }()
	for {
		verifsim.Yield("wsh")
		select {
		case <-ctx.Done():
			return ctx.Err()
		case m, ok := <-recv:
			if !ok {
				return mocrelay.ErrRecvClosed
			}
			h.recvd = append(h.recvd, m)
		}
	}
}

func wsEmissions(c *WSCase) ([]mocrelay.ServerMsg, [][]byte) {
	var ms []mocrelay.ServerMsg
	var wire [][]byte
	emits := append([]mwDown{}, c.Emit...)
	for i := 0; i < c.StallBurst; i++ {
		emits = append(emits, mwDown{T: "NOTICE"})
	}
	for i, e := range emits {
		ev := c.Events[e.Ev%len(c.Events)].Event()
		switch e.T {
		case "EOSE":
			ms = append(ms, mocrelay.NewServerEOSEMsg(e.Sub))
			wire = append(wire, marshalNoEscape([]any{"EOSE", e.Sub}))
		case "EVENT":
			ms = append(ms, mocrelay.NewServerEventMsg(e.Sub, ev))
			wire = append(wire, marshalNoEscape([]any{"EVENT", e.Sub, evJSON(ev)}))
		case "OK":
			txt := fmt.Sprintf("emit#%d %s", i, wsContents[i%len(wsContents)])
			ms = append(ms, mocrelay.NewServerOKMsg(ev.ID, i%2 == 0, "", txt))
			wire = append(wire, marshalNoEscape([]any{"OK", ev.ID, i%2 == 0, txt}))
		case "NOTICE":
			txt := fmt.Sprintf("emit#%d %s", i, wsContents[(i+1)%len(wsContents)])
			ms = append(ms, mocrelay.NewServerNoticeMsg(txt))
			wire = append(wire, marshalNoEscape([]any{"NOTICE", txt}))
		case "CLOSED":
			txt := fmt.Sprintf("emit#%d", i)
			ms = append(ms, mocrelay.NewServerClosedMsg(e.Sub, "error: ", txt))
			wire = append(wire, marshalNoEscape([]any{"CLOSED", e.Sub, "error: " + txt}))
		case "COUNT":
			ms = append(ms, mocrelay.NewServerCountMsg(e.Sub, uint64(i), nil))
			wire = append(wire, marshalNoEscape([]any{"COUNT", e.Sub, map[string]any{"count": i}}))
		case "AUTH":
			ms = append(ms, &mocrelay.ServerAuthMsg{Challenge: fmt.Sprintf("emit#%d", i)})
			wire = append(wire, marshalNoEscape([]any{"AUTH", fmt.Sprintf("emit#%d", i)}))
		}
	}
	return ms, wire
}

func jsonEqual(a, b []byte) bool {
	var x, y any
	da, db := json.NewDecoder(bytes.NewReader(a)), json.NewDecoder(bytes.NewReader(b))
	da.UseNumber()
	db.UseNumber()
	if da.Decode(&x) != nil || db.Decode(&y) != nil {
		return false
	}
	ja, _ := json.Marshal(x)
	jb, _ := json.Marshal(y)
	return bytes.Equal(ja, jb)
}

type wsGot struct {
	typ     websocket.MessageType
	payload []byte
	t       time.Time
}

func relayOpt(o wsOpt) *mocrelay.RelayOption {
	return &mocrelay.RelayOption{
		SendTimeout:        time.Duration(o.SendTimeoutMs) * time.Millisecond,
		PingDuration:       time.Duration(o.PingMs) * time.Millisecond,
		RecvRateLimitRate:  o.Rate,
		RecvRateLimitBurst: o.Burst,
		MaxMessageLength:   o.MaxLen,
	}
}

func (wsEngine) Exec(t *testing.T, cc any) *simrt.Result {
	c := cc.(*WSCase)
	return simrt.Run(t, c.Sched, 3000000, func(sim *simrt.Sim) {
		st := &sim.Res.Stats
		for i := range c.Frames {
			// hand-written cases (known-findings probes) give the message only
			if len(c.Frames[i].Payload) == 0 && c.Frames[i].Msg != nil {
				c.Frames[i].Payload = marshalNoEscape(msgWire(c.Frames[i].Msg))
			}
		}
		for i := range c.Frames {
			if int64(len(c.Frames[i].Payload)) >= c.Opt.MaxLen-32 {
				st.Probe("frame_at_size_limit")
			}
			if len(c.Frames[i].Payload) > 32768 {
				st.Probe("frame_over_32k")
			}
		}
		emit, emitWire := wsEmissions(c)
		h := &wsHandler{sim: sim, emit: emit}
		hc := &wsHandler{sim: sim, name: "wshc"}
		// the companion's handler emits too (two write loops at work at once)
		var compWire [][]byte
		for i := range c.Companion {
			txt := fmt.Sprintf("companion emission #%d %s", i, strings.Repeat(wsContents[i%len(wsContents)]+"y", 40))
			hc.emit = append(hc.emit, mocrelay.NewServerNoticeMsg(txt))
			compWire = append(compWire, marshalNoEscape([]any{"NOTICE", txt}))
		}
		var compGot [][]byte
		relay := mocrelay.NewRelay(&wsDispatch{main: h, comp: hc}, relayOpt(c.Opt))
		mux := &mocrelay.ServeMux{Relay: relay}
		srvCtx, srvCancel := context.WithCancel(context.Background())
		sim.Cleanup(srvCancel)
		ctx, cancel := context.WithCancel(context.Background())
		sim.Cleanup(cancel)
		// the companion session (own connection, own chunking)
		var cconn *websocket.Conn
		var clink *simrt.WSLink
		compDone := len(c.Companion) == 0
		compWrote := 0
		if len(c.Companion) > 0 {
			st.Probe("companion_session")
			sim.Go("wsk", func() {
				defer func() { compDone = true }()
				var err error
				cconn, clink, err = sim.DialWS(ctx, context.WithValue(srvCtx, wsCompanionKey{}, true), "ws1", mux, simrt.SimConnCfg{Chunk: c.Conn.Chunk})
				if err != nil {
					return
				}
				sim.Go("wsk.rd", func() {
					for {
						verifsim.Yield("wsk.rd")
						_, p, err := cconn.Read(ctx)
						if err != nil {
							return
						}
						compGot = append(compGot, p)
					}
				})
				for i := range c.Companion {
					verifsim.Yield("wsk.wr")
					m := &simrt.Msg{T: "EVENT", Ev: &c.Companion[i]}
					if err := cconn.Write(ctx, websocket.MessageText, marshalNoEscape(msgWire(m))); err != nil {
						return
					}
					compWrote++
				}
			})
		}
		_ = clink

		var conn *websocket.Conn
		var link *simrt.WSLink
		var dialErr error
		dialed := false
		var got []wsGot
		wrote := 0
		writerDone, readerDone := false, false
		sim.Go("wsc", func() {
			conn, link, dialErr = sim.DialWS(ctx, srvCtx, "ws0", mux, c.Conn)
			dialed = true
			if dialErr != nil {
				writerDone, readerDone = true, true
				return
			}
			if c.StallBurst > 0 {
				link.StallS2C()
			}
			sim.Go("wsc.rd", func() {
				defer func() { readerDone = true }()
				for {
					verifsim.Yield("wsc.rd")
					typ, p, err := conn.Read(ctx)
					if err != nil {
						return
					}
					got = append(got, wsGot{typ, p, time.Now()})
				}
			})
			for i := range c.Frames {
				verifsim.Yield("wsc.wr")
				f := &c.Frames[i]
				typ := websocket.MessageText
				if f.Binary {
					typ = websocket.MessageBinary
				}
				if err := conn.Write(ctx, typ, f.Payload); err != nil {
					break
				}
				wrote++
			}
			writerDone = true
		})
		if c.StallBurst > 0 {
			// the stalled phase: at most 400ms of simulated time (send timeout >= 1s)
			st.Fault("conn-stall")
			for i := 0; i < 40 && !writerDone; i++ {
				sim.Drive()
				sim.Advance(10 * time.Millisecond)
			}
			sim.Drive()
			if link != nil {
				link.ResumeS2C()
			}
		}
		// drive with time: the rate limiter and the ping ticker need the clock
		budget := time.Duration(float64(max(len(c.Frames), len(c.Companion)))/c.Opt.Rate*float64(time.Second)) + 3*time.Second
		ji := 0
		for elapsed := time.Duration(0); ; {
			if s := sim.Drive(); s != simrt.Quiescent {
				sim.Violate("C12", "deadlock", nil, "scheduler status %d: %v", s, sim.S.ParkedNames())
				return
			}
			if dialed && dialErr != nil {
				sim.Res.Harness = "dial: " + dialErr.Error()
				return
			}
			if writerDone && compDone && elapsed >= budget {
				break
			}
			if elapsed > 10*time.Minute {
				break
			}
			d := 200 * time.Millisecond
			if ji < len(c.Jumps) && writerDone {
				d = time.Duration(c.Jumps[ji]) * time.Millisecond
				ji++
				st.Fault("clock-jump")
			}
			sim.Advance(d)
			elapsed += d
		}
		_ = readerDone
		if c.Conn.Chunk < 64 {
			st.Fault("conn-chunk-small")
		}
		// ---- the companion session: every one of its authentic events reached its
		// handler, in order, whatever happened on the other connection
		if len(c.Companion) > 0 {
			for i := 0; i < compWrote; i++ {
				want := &simrt.Msg{T: "EVENT", Ev: &c.Companion[i]}
				if i >= len(hc.recvd) || !wsSameMsg(hc.recvd[i], want) {
					sim.Violate("C12", "valid-frame-not-delivered", map[string]string{"conn": "companion", "type": "EVENT"}, "a correctly signed EVENT sent over a second, concurrent connection never reached the handler (in order): #%d %s; the handler received %d messages", i, truncate(string(marshalNoEscape(msgWire(want))), 200), len(hc.recvd))
					break
				}
			}
			for i, w := range compWire {
				if i >= len(compGot) || !jsonEqual(compGot[i], w) {
					got := "nothing"
					if i < len(compGot) {
						got = truncate(string(compGot[i]), 200)
					}
					sim.Violate("C12", "emission-lost", map[string]string{"conn": "companion", "type": "NOTICE"}, "the companion session's handler emitted %s; the client received %s in its place (%d frames in all)", truncate(string(w), 120), got, len(compGot))
					break
				}
			}
			if len(compGot) > len(compWire) {
				sim.Violate("C12", "unexpected-server-frame", map[string]string{"conn": "companion"}, "the companion client received %d frames, its handler emitted %d", len(compGot), len(compWire))
			}
			if len(hc.recvd) > compWrote {
				sim.Violate("C12", "invalid-frame-delivered", map[string]string{"conn": "companion"}, "the companion session's handler received %d messages, the client sent %d", len(hc.recvd), compWrote)
			}
			if cconn != nil {
				sim.Go("wsk.closenow", func() { cconn.CloseNow() })
				sim.Drive()
			}
		}
		if link != nil && link.WasReset.Load() {
			// ---- connection reset mid-stream: whatever reached the handler must be a
			// prefix of the deliverable frames (nothing partial, garbled or
			// reordered), and the session must end
			st.Fault("conn-reset")
			var want []*wsFrame
			for i := range c.Frames {
				if c.Frames[i].Deliverable {
					want = append(want, &c.Frames[i])
				}
			}
			for i, m := range h.recvd {
				if i >= len(want) || !wsSameMsg(m, want[i].Msg) {
					sim.Violate("C12", "garbage-after-reset", nil, "after a connection reset at byte %d the handler had received a %s message (#%d) that is not the next valid frame the client sent", c.Conn.ResetAtC2S, m.ClientMsgLabel(), i)
					break
				}
			}
			for i := 0; i < 40 && !link.Served.Load(); i++ {
				sim.Drive()
				sim.Advance(500 * time.Millisecond)
			}
			if !link.Served.Load() {
				sim.Violate("C13", "ws-session-does-not-end", map[string]string{"how": "reset"}, "20s of simulated time after the connection was reset, Relay.ServeHTTP has not returned")
			}
			if conn != nil {
				sim.Go("wsc.closenow", func() { conn.CloseNow() })
			}
			cancel()
			srvCancel()
			sim.Drive()
			st.NonTrivial = len(c.Frames) >= 2
			st.Completed = true
			return
		}
		// ---- oracle
		// (1) what the handler received == deliverable frames, in order, each once
		var want []*wsFrame
		nBad := 0
		for i := range c.Frames[:wrote] {
			if c.Frames[i].Deliverable {
				want = append(want, &c.Frames[i])
			} else {
				nBad++
			}
		}
		hi := 0
		for _, f := range want {
			if hi < len(h.recvd) && wsSameMsg(h.recvd[hi], f.Msg) {
				hi++
				continue
			}
			// not next: was it dropped, or did something else arrive?
			found := false
			for j := hi; j < len(h.recvd); j++ {
				if wsSameMsg(h.recvd[j], f.Msg) {
					found = true
				}
			}
			at := map[string]string{"type": f.Msg.T}
			if f.Msg.Ev != nil {
				at["content_class"] = contentClass(f.Msg.Ev)
				at["kind"] = fmt.Sprint(f.Msg.Ev.Kind)
			}
			if f.Msg.T == "REQ" || f.Msg.T == "COUNT" {
				at["filter_class"] = filterClass(f.Msg)
			}
			if found {
				sim.Violate("C12", "reordered", at, "the handler received the valid %s frame %s out of order", f.Msg.T, truncate(string(f.Payload), 200))
			} else {
				sim.Violate("C12", "valid-frame-not-delivered", at, "a well-formed, valid%s %s frame never reached the handler: %s", map[bool]string{true: ", correctly signed", false: ""}[f.Msg.Ev != nil], f.Msg.T, truncate(string(f.Payload), 300))
			}
		}
		if hi < len(h.recvd) && len(sim.Res.Violations) == 0 {
			m := h.recvd[hi]
			// which frame was it?
			kind := "?"
			for i := range c.Frames[:wrote] {
				if !c.Frames[i].Deliverable {
					if pm, err := mocrelay.ParseClientMsg(c.Frames[i].Payload); err == nil && pm.ClientMsgLabel() == m.ClientMsgLabel() {
						kind = c.Frames[i].Kind
					}
				}
			}
			sim.Violate("C12", "invalid-frame-delivered", map[string]string{"corruption": kind}, "the handler received a %s message that no valid frame carried (corruption %q reached the handler)", m.ClientMsgLabel(), kind)
		}
		// (2) what the client received: the handler's emissions in order + one rejection per bad frame
		ei := 0
		nRej := 0
		for _, g := range got {
			if g.typ != websocket.MessageText {
				sim.Violate("C12", "non-text-frame", nil, "the relay sent a binary frame")
				continue
			}
			if ei < len(emitWire) && jsonEqual(g.payload, emitWire[ei]) {
				ei++
				continue
			}
			var arr []any
			if json.Unmarshal(g.payload, &arr) != nil || len(arr) < 2 {
				sim.Violate("C12", "server-frame-not-json", nil, "the relay sent %q", truncate(string(g.payload), 200))
				continue
			}
			switch arr[0] {
			case "NOTICE":
				nRej++
			case "OK":
				if len(arr) >= 3 && arr[2] == false {
					nRej++
				} else {
					sim.Violate("C12", "unexpected-server-frame", nil, "the relay sent %s which the handler did not emit", truncate(string(g.payload), 200))
				}
			case "CLOSED":
				nRej++
			default:
				// maybe an emission delivered out of order / altered
				next := "none"
				if ei < len(emitWire) {
					next = truncate(string(emitWire[ei]), 200)
				}
				sim.Violate("C12", "emission-altered-or-reordered", nil, "client received %s; next expected emission is %s", truncate(string(g.payload), 200), next)
			}
		}
		if ei < len(emitWire) {
			typ := "NOTICE" // the burst of the stalled-peer scenario
			if ei < len(c.Emit) {
				typ = c.Emit[ei].T
			}
			sim.Violate("C12", "emission-lost", map[string]string{"type": typ}, "the handler emitted %d messages, the client received %d of them in order; missing %s", len(emitWire), ei, truncate(string(emitWire[ei]), 200))
		}
		if nRej != nBad && len(sim.Res.Violations) == 0 {
			sim.Violate("C12", "rejection-count", nil, "%d frames were not deliverable, the client received %d rejections", nBad, nRej)
		}
		st.Probe(fmt.Sprintf("rejections_%v", nBad > 0))
		// (3) orderly close
		if conn != nil {
			sim.Go("wsc.close", func() { conn.Close(websocket.StatusNormalClosure, "") })
		}
		for i := 0; i < 40 && !(link != nil && link.Served.Load()); i++ {
			sim.Drive()
			sim.Advance(500 * time.Millisecond)
		}
		if link != nil && !link.Served.Load() {
			sim.Violate("C13", "ws-session-does-not-end", nil, "20s of simulated time after the client closed the WebSocket, Relay.ServeHTTP has not returned")
		}
		cancel()
		srvCancel()
		sim.Drive()
		hh := fnv.New64a()
		for i := range c.Frames {
			fmt.Fprintf(hh, "%s|", c.Frames[i].Kind)
		}
		st.State(hh.Sum64())
		st.NonTrivial = len(c.Frames) >= 2
		st.Completed = true
	})
}

func contentClass(e *simrt.EvSpec) string {
	s := e.Content
	for _, t := range e.Tags {
		s += strings.Join(t, "")
	}
	switch {
	case len(e.Content) > 2000:
		return "at-size-limit"
	case strings.ContainsAny(s, "<>&"):
		return "html"
	case strings.ContainsAny(s, "  "):
		return "line-separators"
	}
	return "other"
}

func filterClass(m *simrt.Msg) string {
	for _, f := range m.Filters {
		for _, v := range f.Tags["a"] {
			if strings.Count(v, ":") > 2 || strings.HasSuffix(v, ":") {
				return "a-with-colon-or-empty-d"
			}
		}
		for _, k := range f.Kinds {
			if k > 65535 || k < 0 {
				return "kind-out-of-range"
			}
		}
	}
	return "other"
}

// wsSameMsg compares what the handler received with the message the frame carried.
func wsSameMsg(got mocrelay.ClientMsg, want *simrt.Msg) bool {
	w := want.Client()
	switch g := got.(type) {
	case *mocrelay.ClientEventMsg:
		x, ok := w.(*mocrelay.ClientEventMsg)
		return ok && ref.EqualEvent(g.Event, x.Event)
	case *mocrelay.ClientAuthMsg:
		x, ok := w.(*mocrelay.ClientAuthMsg)
		return ok && ref.EqualEvent(g.Event, x.Event)
	case *mocrelay.ClientCloseMsg:
		x, ok := w.(*mocrelay.ClientCloseMsg)
		return ok && g.SubscriptionID == x.SubscriptionID
	case *mocrelay.ClientReqMsg:
		x, ok := w.(*mocrelay.ClientReqMsg)
		return ok && g.SubscriptionID == x.SubscriptionID && sameFilters(g.ReqFilters, x.ReqFilters)
	case *mocrelay.ClientCountMsg:
		x, ok := w.(*mocrelay.ClientCountMsg)
		return ok && g.SubscriptionID == x.SubscriptionID && sameFilters(g.ReqFilters, x.ReqFilters)
	}
	return false
}

func sameFilters(a, b []*mocrelay.ReqFilter) bool {
	if len(a) != len(b) {
		return false
	}
	for i := range a {
		ja, _ := json.Marshal(filterView(a[i]))
		jb, _ := json.Marshal(filterView(b[i]))
		if !bytes.Equal(ja, jb) {
			return false
		}
	}
	return true
}

func filterView(f *mocrelay.ReqFilter) map[string]any {
	o := map[string]any{"ids": f.IDs, "authors": f.Authors, "kinds": f.Kinds, "tags": f.Tags}
	if f.Since != nil {
		o["since"] = *f.Since
	}
	if f.Until != nil {
		o["until"] = *f.Until
	}
	if f.Limit != nil {
		o["limit"] = *f.Limit
	}
	return o
}

// ---- C13, WebSocket clause: a peer that stops reading is dropped once a write
// has been blocked for the configured send timeout, whatever the other options.

type wsStallSpec struct {
	Opt        wsOpt            `json:"opt"`
	Conn       simrt.SimConnCfg `json:"conn"`
	StallAfter int              `json:"stall_after_ms"`
	// Idle: the handler emits nothing; the only relay writes are pings (the write
	// that blocks is then a ping frame)
	Idle bool `json:"idle,omitempty"`
	// BadInput (with Idle): the handler emits nothing, but the peer that stopped
	// reading keeps sending frames the relay rejects, so the writes that block
	// are the relay's own rejection notices
	BadInput bool `json:"bad_input,omitempty"`
}

func wsStallRun(t *testing.T, sp *wsStallSpec, sched simrt.Schedule) *simrt.Result {
	return simrt.Run(t, sched, 3000000, func(sim *simrt.Sim) {
		st := &sim.Res.Stats
		h := &wsHandler{sim: sim, flood: !sp.Idle}
		relay := mocrelay.NewRelay(h, relayOpt(sp.Opt))
		mux := &mocrelay.ServeMux{Relay: relay}
		srvCtx, srvCancel := context.WithCancel(context.Background())
		sim.Cleanup(srvCancel)
		ctx, cancel := context.WithCancel(context.Background())
		sim.Cleanup(cancel)
		var link *simrt.WSLink
		var dialErr error
		dialed := false
		var conn *websocket.Conn
		sim.Cleanup(func() {
			if conn != nil {
				conn.CloseNow() // the client library's own goroutines
			}
		})
		sim.Go("wsc", func() {
			conn, link, dialErr = sim.DialWS(ctx, srvCtx, "ws0", mux, sp.Conn)
			dialed = true
			if dialErr != nil {
				return
			}
			for {
				verifsim.Yield("wsc.rd")
				if _, _, err := conn.Read(ctx); err != nil {
					return
				}
			}
		})
		sim.Drive()
		if !dialed || dialErr != nil {
			sim.Res.Harness = fmt.Sprintf("dial: %v", dialErr)
			return
		}
		// some traffic first, then the peer stops reading
		sim.Advance(time.Duration(sp.StallAfter) * time.Millisecond)
		link.StallS2C()
		st.Fault("conn-stall")
		sendTimeout := time.Duration(sp.Opt.SendTimeoutMs) * time.Millisecond
		if sp.Idle && sp.BadInput {
			st.Fault("rejected-input-from-stalled-peer")
			sim.Go("wsc.bad", func() {
				for i := 0; i < 200; i++ {
					verifsim.Yield("wsc.bad")
					if err := conn.Write(ctx, websocket.MessageText, []byte(fmt.Sprintf(`["EVENT", {oops %d`, i))); err != nil {
						return
					}
					select {
					case <-time.After(150 * time.Millisecond):
					case <-ctx.Done():
						return
					}
				}
			})
		}
		// find the moment a server write starts to block
		if sp.Idle && !sp.BadInput {
			// nothing but pings is written. The connection buffers a ping frame, so
			// no write blocks; the ping that gets no pong must end the session one
			// send timeout after it was sent (first tick after the stall at the latest)
			if sp.Opt.PingMs == 0 {
				st.Probe("idle_without_ping_nothing_to_block")
				sim.Advance(3 * time.Second)
				link.ResumeS2C()
				cancel()
				srvCancel()
				sim.Drive()
				st.Completed = true
				return
			}
			limit := time.Duration(sp.Opt.PingMs)*time.Millisecond + sendTimeout + 1500*time.Millisecond
			for el := time.Duration(0); el < limit && !link.Served.Load(); el += 100 * time.Millisecond {
				sim.Advance(100 * time.Millisecond)
			}
			if !link.Served.Load() {
				sim.Advance(5 * time.Minute)
				cls := "stalled-peer-dropped-late"
				if !link.Served.Load() {
					cls = "stalled-peer-not-dropped"
				}
				sim.Violate("C13", cls, map[string]string{"ping": "enabled", "traffic": "idle"},
					"the peer stopped reading on an idle connection; with PingDuration=%dms and SendTimeout=%v the session was still alive %v later (the unanswered ping must end it)", sp.Opt.PingMs, sendTimeout, limit)
			} else {
				st.Probe("idle_stalled_peer_dropped_by_ping")
			}
			link.ResumeS2C()
			cancel()
			srvCancel()
			sim.Drive()
			st.Completed = true
			return
		}
		var blockedAt time.Time
		polls := 400
		for i := 0; i < polls; i++ {
			sim.Drive()
			if since, blocked := link.Server.BlockedSince(); blocked {
				// blocked means: the write in progress did not complete during a
				// whole advance step; remember its start
				if blockedAt.IsZero() || since.After(blockedAt) {
					blockedAt = since
				}
				if time.Since(blockedAt) > 0 {
					break
				}
			}
			if link.Served.Load() {
				break
			}
			sim.Advance(50 * time.Millisecond)
		}
		if link.Served.Load() {
			st.Probe("session_ended_before_block_observed")
			st.Completed = true
			return
		}
		if blockedAt.IsZero() {
			if sp.Idle && !sp.BadInput && sp.Opt.PingMs == 0 {
				// no handler output and no pings: the relay writes nothing, so there
				// is no blocked write the property speaks about
				st.Probe("idle_without_ping_nothing_to_block")
				st.Completed = true
				return
			}
			sim.Res.Harness = "no server write ever blocked although the peer stopped reading"
			return
		}
		deadline := blockedAt.Add(sendTimeout)
		// advance to the deadline, then a tolerance of 600ms for the goroutines
		// woken by the timer to be scheduled
		if d := time.Until(deadline); d > 0 {
			sim.Advance(d)
		}
		// the write in progress may legitimately have been a later one: follow it
		for i := 0; i < 20 && !link.Served.Load(); i++ {
			sim.Advance(50 * time.Millisecond)
		}
		if !link.Served.Load() {
			since, blocked := link.Server.BlockedSince()
			if blocked && since.After(blockedAt) {
				// a newer write is the blocked one now: allow its own full timeout once
				if d := time.Until(since.Add(sendTimeout + time.Second)); d > 0 {
					sim.Advance(d)
				}
			}
		}
		if !link.Served.Load() {
			// give it a generous extra period to tell "late" from "never"
			sim.Advance(5 * time.Minute)
			cls := "stalled-peer-dropped-late"
			if !link.Served.Load() {
				cls = "stalled-peer-not-dropped"
			}
			sim.Violate("C13", cls, map[string]string{"ping": map[bool]string{true: "disabled", false: "enabled"}[sp.Opt.PingMs == 0]},
				"a server write has been blocked since %v (peer stopped reading); with SendTimeout=%v and PingDuration=%dms the session was still alive %v later",
				blockedAt.Sub(time.Unix(mwEpoch, 0)), sendTimeout, sp.Opt.PingMs, sendTimeout+time.Second)
		} else {
			st.Probe("stalled_peer_dropped")
		}
		link.ResumeS2C()
		cancel()
		srvCancel()
		sim.Drive()
		st.Completed = true
	})
}

// ---- C13, relay teardown: a real handler tree behind Relay.ServeHTTP over the
// simulated connection; the session is ended by an orderly close, by a
// connection reset or by cancelling the server's request context after the
// history; afterwards everything must be released.

func wsCutRun(t *testing.T, c *C13Case, how string) *simrt.Result {
	return simrt.Run(t, c.Sched, 3000000, func(sim *simrt.Sim) {
		st := &sim.Res.Stats
		env := &c13Env{}
		env.hctx, env.hcancel = context.WithCancel(context.Background())
		h := env.build(&c.Tree)
		if env.err != nil {
			sim.Res.Harness = "build: " + env.err.Error()
			env.hcancel()
			return
		}
		opt := wsOpt{SendTimeoutMs: 1000, PingMs: 5000, Rate: 1000, Burst: 10, MaxLen: 100000}
		if c.WS != nil {
			opt.SendTimeoutMs, opt.PingMs = c.WS.Opt.SendTimeoutMs, c.WS.Opt.PingMs
		}
		relay := mocrelay.NewRelay(h, relayOpt(opt))
		mux := &mocrelay.ServeMux{Relay: relay}
		sim.Drive()
		env.snapshotRouters()
		base := census()
		srvCtx, srvCancel := context.WithCancel(context.Background())
		sim.Cleanup(srvCancel)
		ctx, cancel := context.WithCancel(context.Background())
		sim.Cleanup(cancel)
		var conn *websocket.Conn
		var link *simrt.WSLink
		var dialErr error
		dialed, writerDone := false, false
		chunk := 4096
		if c.WS != nil {
			chunk = c.WS.Conn.Chunk
		}
		sim.Go("wsc", func() {
			conn, link, dialErr = sim.DialWS(ctx, srvCtx, "ws0", mux, simrt.SimConnCfg{Chunk: chunk})
			dialed = true
			if dialErr != nil {
				writerDone = true
				return
			}
			sim.Go("wsc.rd", func() {
				for {
					verifsim.Yield("wsc.rd")
					if _, _, err := conn.Read(ctx); err != nil {
						return
					}
				}
			})
			for i := range c.History {
				verifsim.Yield("wsc.wr")
				m := c.History[i]
				if m.Ev != nil {
					e := *m.Ev
					e.Sign = true
					m.Ev = &e
				}
				if err := conn.Write(ctx, websocket.MessageText, marshalNoEscape(msgWire(&m))); err != nil {
					break
				}
			}
			writerDone = true
		})
		for i := 0; i < 60 && !writerDone; i++ {
			sim.Drive()
			sim.Advance(20 * time.Millisecond)
		}
		sim.Drive()
		if !dialed || dialErr != nil || link == nil {
			sim.Res.Harness = fmt.Sprintf("dial: %v", dialErr)
			return
		}
		switch how {
		case "ws-close":
			sim.Go("wsc.close", func() { conn.Close(websocket.StatusNormalClosure, "") })
		case "ws-reset":
			st.Fault("conn-reset")
			link.Reset()
		case "ws-server-cancel":
			srvCancel()
		}
		st.Fault(how)
		for i := 0; i < 30 && !link.Served.Load(); i++ {
			sim.Drive()
			sim.Advance(100 * time.Millisecond)
		}
		if !link.Served.Load() {
			sim.Advance(30 * time.Second)
			cls := "ws-session-ends-late"
			if !link.Served.Load() {
				cls = "ws-session-does-not-end"
			}
			sim.Violate("C13", cls, map[string]string{"how": how}, "3s of simulated time after the WebSocket session was ended (%s), Relay.ServeHTTP had not returned", how)
		}
		// the harness's own client connection must go too before the census
		if conn != nil {
			sim.Go("wsc.closenow", func() { conn.CloseNow() })
		}
		cancel()
		sim.Drive()
		sim.Advance(200 * time.Millisecond)
		if link.Served.Load() {
			if extra := censusDiff(base, census()); len(extra) > 0 {
				sim.Violate("C13", "goroutine-leak", map[string]string{"how": how}, "after Relay.ServeHTTP returned, goroutines of the session are still there: %s", strings.Join(extra, "; "))
			}
		}
		for i, r := range env.routers {
			if n := simrt.MapEntries(r); n != env.routerBase[i] {
				sim.Violate("C13", "router-registry-leak", map[string]string{"how": how}, "router #%d holds %d registry entries after the WebSocket session ended, %d before it started", i, n, env.routerBase[i])
			}
		}
		for i, reg := range env.regs {
			if g, err := mwGather(reg); err == nil {
				if v := g["mocrelay_connection_count{}"]; v != 0 {
					sim.Violate("C13", "connection-gauge-leak", map[string]string{"how": how}, "prometheus middleware #%d: connection gauge is %v after the only session ended", i, v)
				}
				if v := g["mocrelay_req_count{}"]; v != 0 {
					sim.Violate("C13", "subscription-gauge-leak", map[string]string{"how": how}, "prometheus middleware #%d: subscription gauge is %v after the only session ended", i, v)
				}
			}
		}
		env.hcancel()
		srvCancel()
		sim.Drive()
		sim.Advance(4 * time.Second)
		for _, db := range env.dbs {
			db.Close()
		}
		sim.Drive()
		st.Completed = true
	})
}
