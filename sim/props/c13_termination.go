package props

import (
	"context"
	"database/sql"
	"encoding/json"
	"fmt"
	"hash/fnv"
	"regexp"
	"sort"
	"strings"
	"testing"
	"time"

	"github.com/high-moctane/mocrelay"
	mocsqlite "github.com/high-moctane/mocrelay/handler/sqlite"
	"github.com/prometheus/client_golang/prometheus"
	"pgregory.net/rapid"
	"verif.local/sim/simrt"
)

// C13 (handler clause): for each sampled (handler composition, client history)
// EVERY cut point of the history is executed with each way of ending the
// session and each peer behaviour; afterwards serving must have returned, no
// goroutine of the session may be left, the router registries must be empty and
// the prometheus gauges back at their previous values.

type hNode struct {
	Kind     string   `json:"kind"` // default | cache | router | sqlite | merge
	Buflen   int      `json:"buflen,omitempty"`
	Cap      int      `json:"cap,omitempty"`
	Broken   bool     `json:"broken,omitempty"` // sqlite: every transaction fails (the inserter sits in its retry back-off)
	Stalled  bool     `json:"stalled,omitempty"` // sqlite: every BeginTx hangs for 20 s of simulated time while holding the only pooled connection (a disk that does not answer)
	Bulk     int      `json:"bulk,omitempty"`
	Children []hNode  `json:"children,omitempty"`
	Mw       []MwSpec `json:"mw,omitempty"` // wrapped around this node, outermost first
}

type C13Case struct {
	Tree    hNode          `json:"tree"`
	History []simrt.Msg    `json:"history"`
	Events  []simrt.EvSpec `json:"events"`
	Sched   simrt.Schedule `json:"sched"`
	WS      *wsStallSpec   `json:"ws,omitempty"`
	// a replay may pin one combination; zero values = enumerate all
	OnlyCut  int    `json:"only_cut,omitempty"` // 1-based
	OnlyMode string `json:"only_mode,omitempty"`
}

type c13Engine struct{}

func init() { register("termination", c13Engine{}, "C13") }

func (c13Engine) Decode(b []byte) (any, error) {
	var c C13Case
	err := json.Unmarshal(b, &c)
	return &c, err
}

func genNode(t *rapid.T, depth int) hNode {
	var n hNode
	kinds := []string{"default", "cache", "router", "router", "sqlite", "merge", "merge"}
	if depth >= 2 {
		kinds = kinds[:5]
	}
	n.Kind = rapid.SampledFrom(kinds).Draw(t, "node")
	switch n.Kind {
	case "router":
		n.Buflen = rapid.IntRange(1, 3).Draw(t, "buflen")
	case "cache":
		n.Cap = rapid.IntRange(1, 4).Draw(t, "cap")
	case "sqlite":
		n.Bulk = rapid.IntRange(1, 2).Draw(t, "bulk")
		switch rapid.IntRange(0, 5).Draw(t, "broken") {
		case 0, 1:
			n.Broken = true
		case 2:
			n.Stalled = true
		}
	case "merge":
		nc := rapid.IntRange(2, 3).Draw(t, "nchildren")
		for i := 0; i < nc; i++ {
			n.Children = append(n.Children, genNode(t, depth+1))
		}
	}
	mwKinds := []string{"maxsubs", "maxfilters", "maxlimit", "maxsubid", "maxtags", "maxcontent", "lower", "upper", "logging", "recvunique", "sendunique", "prom", "allow"}
	for i, m := 0, rapid.SampledFrom([]int{0, 0, 1, 1, 2, 3, 4}).Draw(t, "nmw"); i < m; i++ {
		s := MwSpec{Kind: rapid.SampledFrom(mwKinds).Draw(t, "mwkind"), N: rapid.IntRange(1, 3).Draw(t, "mwn")}
		switch s.Kind {
		case "lower", "upper":
			s.N = 1000000
		case "allow":
			s.Filter = &simrt.FilterSpec{Kinds: []int64{1, 7}}
		}
		n.Mw = append(n.Mw, s)
	}
	return n
}

func (c13Engine) Gen(t *rapid.T, tier string) any {
	c := &C13Case{}
	c.Tree = genNode(t, 0)
	nev := rapid.IntRange(1, 4).Draw(t, "nev")
	for i := 0; i < nev; i++ {
		c.Events = append(c.Events, simrt.EvSpec{Author: rapid.IntRange(0, 1).Draw(t, "author"), Kind: rapid.SampledFrom([]int64{1, 7, 0, 5, 20001}).Draw(t, "kind"),
			CreatedAt: mwEpoch + int64(rapid.IntRange(-3, 3).Draw(t, "dt")), Content: fmt.Sprintf("t%d", i)})
	}
	maxH := 8
	if tier == "thorough" {
		maxH = 12
	}
	nh := rapid.IntRange(0, maxH).Draw(t, "nhist")
	for i := 0; i < nh; i++ {
		switch k := rapid.IntRange(0, 9).Draw(t, "msg"); {
		case k <= 3:
			fs := []simrt.FilterSpec{{}}
			if rapid.IntRange(0, 1).Draw(t, "fk") == 0 {
				fs = []simrt.FilterSpec{{Kinds: []int64{1}}}
			}
			c.History = append(c.History, simrt.Msg{T: "REQ", Sub: rapid.SampledFrom([]string{"a", "b", "c"}).Draw(t, "sub"), Filters: fs})
		case k <= 6:
			e := c.Events[rapid.IntRange(0, nev-1).Draw(t, "ev")]
			c.History = append(c.History, simrt.Msg{T: "EVENT", Ev: &e})
		case k == 7:
			c.History = append(c.History, simrt.Msg{T: "CLOSE", Sub: rapid.SampledFrom([]string{"a", "b", "c"}).Draw(t, "sub")})
		case k == 8:
			cf := simrt.FilterSpec{}
			if rapid.IntRange(0, 1).Draw(t, "countlimit") == 0 {
				// a COUNT that limit / filter-count middlewares may reject
				lim := int64(rapid.SampledFrom([]int{1, 3, 1000}).Draw(t, "climit"))
				cf.Limit = &lim
			}
			c.History = append(c.History, simrt.Msg{T: "COUNT", Sub: "n", Filters: []simrt.FilterSpec{cf}})
		default:
			e := simrt.EvSpec{Kind: 22242, CreatedAt: mwEpoch}
			c.History = append(c.History, simrt.Msg{T: "AUTH", Ev: &e})
		}
	}
	c.WS = &wsStallSpec{
		Opt: wsOpt{SendTimeoutMs: rapid.SampledFrom([]int{1000, 10000}).Draw(t, "ws.sendtimeout"), PingMs: rapid.SampledFrom([]int{0, 5000, 60000}).Draw(t, "ws.ping"),
			Rate: 10, Burst: 10, MaxLen: 100000},
		Conn:       simrt.SimConnCfg{Chunk: rapid.SampledFrom([]int{16, 512, 4096, 65536}).Draw(t, "ws.chunk")},
		StallAfter: rapid.SampledFrom([]int{0, 100, 3000}).Draw(t, "ws.stallafter"),
		Idle:       rapid.IntRange(0, 2).Draw(t, "ws.idle") == 0,
		BadInput:   rapid.IntRange(0, 1).Draw(t, "ws.badinput") == 0,
	}
	c.Sched = GenSchedule(t, 3000)
	if c.Sched.SelMode == 0 {
		c.Sched.SelMode = uint64(rapid.IntRange(0, 6).Draw(t, "buggify-select"))
	}
	return c
}

type c13Env struct {
	routers    []*mocrelay.RouterHandler
	regs       []*prometheus.Registry
	dbs        []*sql.DB
	hctx       context.Context
	hcancel    context.CancelFunc
	err        error
	broken     bool
	stalled    bool
	routerBase []int // registry entries (all maps reachable from each router) before the session
}

func (env *c13Env) snapshotRouters() {
	env.routerBase = env.routerBase[:0]
	for _, r := range env.routers {
		env.routerBase = append(env.routerBase, simrt.MapEntries(r))
	}
}

func (env *c13Env) build(n *hNode) mocrelay.Handler {
	var h mocrelay.Handler
	switch n.Kind {
	case "default":
		h = mocrelay.NewDefaultHandler()
	case "cache":
		h = mocrelay.NewCacheHandler(max(n.Cap, 1))
	case "router":
		r := mocrelay.NewRouterHandler(max(n.Buflen, 1))
		env.routers = append(env.routers, r)
		h = r
	case "sqlite":
		memDBCounter++
		db, err := sql.Open("verif-sqlite3", fmt.Sprintf("file:verifc13_%d?mode=memory&cache=shared", memDBCounter))
		if err != nil {
			env.err = err
			return mocrelay.NewDefaultHandler()
		}
		db.SetMaxOpenConns(1)
		env.dbs = append(env.dbs, db)
		if n.Broken {
			env.broken = true
		}
		if n.Stalled {
			env.stalled = true
		}
		sh, err := mocsqlite.NewSQLiteHandler(env.hctx, db, &mocsqlite.SQLiteHandlerOption{EventBulkInsertNum: max(n.Bulk, 1), EventBulkInsertDur: time.Minute, MaxLimit: mocsqlite.NoLimit})
		if err != nil {
			env.err = err
			return mocrelay.NewDefaultHandler()
		}
		h = sh
	case "merge":
		var hs []mocrelay.Handler
		for i := range n.Children {
			hs = append(hs, env.build(&n.Children[i]))
		}
		h = mocrelay.NewMergeHandler(hs...)
	default:
		h = mocrelay.NewDefaultHandler()
	}
	for i := len(n.Mw) - 1; i >= 0; i-- {
		var reg *prometheus.Registry
		if n.Mw[i].Kind == "prom" {
			reg = prometheus.NewRegistry()
			env.regs = append(env.regs, reg)
		}
		h = buildMw(&n.Mw[i], reg)(h)
	}
	return h
}

var goroutineHdr = regexp.MustCompile(`^goroutine (\d+) \[`)

// census returns the goroutines of the process that belong to a bubble, by
// goroutine id, with the first mocrelay frame of each (for messages).
func census() map[string]string {
	out := map[string]string{}
	for _, g := range simrt.BubbleGoroutines() {
		lines := strings.Split(g, "\n")
		m := goroutineHdr.FindStringSubmatch(lines[0])
		if m == nil {
			continue
		}
		top := ""
		for _, l := range lines[1:] {
			if strings.Contains(l, "mocrelay") && !strings.Contains(l, "verifsim") && !strings.HasPrefix(l, "\t") && !strings.HasPrefix(l, "created by") {
				if i := strings.LastIndex(l, "("); i > 0 {
					l = l[:i]
				}
				top = l
				break
			}
		}
		if top == "" && len(lines) > 1 {
			top = strings.TrimSpace(lines[1])
		}
		out[m[1]] = top
	}
	return out
}

// censusDiff lists goroutines that exist now but did not exist before the
// session started.
func censusDiff(before, after map[string]string) []string {
	var extra []string
	for id, top := range after {
		if _, ok := before[id]; !ok {
			extra = append(extra, top)
		}
	}
	sort.Strings(extra)
	return extra
}

type c13Mode struct {
	end   string // cancel | closerecv
	stall bool   // the peer never reads
}

func (c13Engine) Exec(t *testing.T, cc any) *simrt.Result {
	c := cc.(*C13Case)
	total := &simrt.Result{}
	if c.WS != nil && (c.OnlyMode == "" || c.OnlyMode == "ws-stall") {
		r := wsStallRun(t, c.WS, c.Sched)
		total.Violations = append(total.Violations, r.Violations...)
		total.Harness = r.Harness
		total.Trace = r.Trace
		total.Stats = r.Stats
		total.Stats.States = nil
	}
	merge := func(r *simrt.Result, name string) {
		for i := range r.Violations {
			r.Violations[i].Msg = fmt.Sprintf("[after the whole history of %d messages, %s] %s", len(c.History), name, r.Violations[i].Msg)
		}
		total.Violations = append(total.Violations, r.Violations...)
		if r.Harness != "" && total.Harness == "" {
			total.Harness, total.Trace = r.Harness, r.Trace
		}
		if len(r.Violations) > 0 && total.Trace == nil {
			total.Trace = r.Trace
		}
		total.Stats.Steps += r.Stats.Steps
		total.Stats.Switches += r.Stats.Switches
		total.Stats.SimTime += r.Stats.SimTime
		for k, v := range r.Stats.Faults {
			for i := int64(0); i < v; i++ {
				total.Stats.Fault(k)
			}
		}
	}
	for _, how := range []string{"ws-close", "ws-reset", "ws-server-cancel"} {
		if (c.OnlyMode == "" && c.OnlyCut == 0) || c.OnlyMode == how {
			if total.Harness == "" {
				merge(wsCutRun(t, c, how), how)
			}
		}
	}
	modes := []c13Mode{{"cancel", false}, {"cancel", true}, {"closerecv", false}}
	first := true
	for cut := 0; cut <= len(c.History); cut++ {
		if c.OnlyCut != 0 && c.OnlyCut-1 != cut {
			continue
		}
		for _, m := range modes {
			name := fmt.Sprintf("%s/stall=%v", m.end, m.stall)
			if c.OnlyMode != "" && c.OnlyMode != name {
				continue
			}
			if total.Harness != "" {
				continue
			}
			r := c13Run(t, c, cut, m)
			for i := range r.Violations {
				if r.Violations[i].Attrs == nil {
					r.Violations[i].Attrs = map[string]string{}
				}
				r.Violations[i].Msg = fmt.Sprintf("[cut after %d of %d messages, %s] %s", cut, len(c.History), name, r.Violations[i].Msg)
			}
			total.Violations = append(total.Violations, r.Violations...)
			if r.Harness != "" && total.Harness == "" {
				total.Harness = r.Harness
				total.Trace = r.Trace
			}
			if len(r.Violations) > 0 && total.Trace == nil {
				total.Trace = r.Trace
			}
			s, ts := &r.Stats, &total.Stats
			ts.Steps += s.Steps
			ts.Switches += s.Switches
			ts.Preemptions += s.Preemptions
			ts.SimTime += s.SimTime
			ts.SchedHash = ts.SchedHash*31 ^ s.SchedHash
			for k, v := range s.Faults {
				for i := int64(0); i < v; i++ {
					ts.Fault(k)
				}
			}
			for k, v := range s.Probes {
				for i := int64(0); i < v; i++ {
					ts.Probe(k)
				}
			}
			ts.States = append(ts.States, s.States...)
			if first {
				ts.Completed = s.Completed
				first = false
			}
			ts.Completed = ts.Completed && s.Completed
		}
	}
	total.Stats.NonTrivial = len(c.History) >= 2 && total.Stats.Switches > 10
	return total
}

const c13StallFor = 20 * time.Second

func c13Run(t *testing.T, c *C13Case, cut int, mode c13Mode) *simrt.Result {
	return simrt.Run(t, c.Sched, 800000, func(sim *simrt.Sim) {
		st := &sim.Res.Stats
		env := &c13Env{}
		env.hctx, env.hcancel = context.WithCancel(context.Background())
		h := env.build(&c.Tree)
		if env.err != nil {
			sim.Res.Harness = "build: " + env.err.Error()
			env.hcancel()
			return
		}
		sim.Drive() // handler-level goroutines settle (SQLite bulk inserter)
		env.snapshotRouters()
		if env.broken {
			// disk trouble: every transaction of the bulk inserter fails at BeginTx,
			// so it sits in its 1s/2s/4s back-off and its queue fills up
			plan := &simrt.FaultPlan{Hook: func(n int, what string) error {
				if what == "begin" {
					return simrt.ErrInjected
				}
				return nil
			}}
			simrt.SetFaultPlan(plan)
			plan.Arm()
			st.Fault("drv-err-persistent")
			defer simrt.SetFaultPlan(nil)
		}
		if env.stalled && !env.broken {
			// a disk that does not answer: the inserter's BeginTx hangs while it
			// holds the only pooled connection, so a REQ of the session waits for
			// the pool when the session is ended
			plan := &simrt.FaultPlan{Hook: func(n int, what string) error {
				if what == "begin" {
					time.Sleep(c13StallFor)
				}
				return nil
			}}
			simrt.SetFaultPlan(plan)
			plan.Arm()
			st.Fault("disk-stall")
			defer simrt.SetFaultPlan(nil)
		}
		base := census()
		var script []simrt.Op
		if mode.stall {
			script = append(script, simrt.Op{Kind: "pause"})
		}
		for i := 0; i < cut; i++ {
			m := c.History[i]
			script = append(script, simrt.Op{Kind: "send", Msg: &m})
		}
		script = append(script, simrt.Op{Kind: mode.end})
		cl := sim.NewClient(context.Background(), "cl", script)
		cl.Serve(h)
		st.Fault(mode.end)
		if mode.stall {
			st.Fault("reader-stall")
		}
		if s := sim.Drive(); s != simrt.Quiescent {
			sim.Violate("C13", "deadlock", nil, "scheduler status %d: %v", s, sim.S.ParkedNames())
			return
		}
		// with a stalled peer the script may be stuck before its cut (the session
		// does not take further input): cancel from outside then
		if !cl.ScriptDone.Load() && mode.end == "cancel" {
			st.Probe("cut_while_input_blocked")
			cl.CancelStamp = sim.Stamp()
			cl.Cancel()
			if s := sim.Drive(); s != simrt.Quiescent {
				sim.Violate("C13", "deadlock", nil, "scheduler status %d: %v", s, sim.S.ParkedNames())
				return
			}
		}
		// O1: serving returns promptly. With the injected persistent disk failure an
		// inbound close may find the session inside a message that waits for room
		// in the insert queue (back-pressure of the 1s+2s+4s retry cycle): that
		// fault is outside the property's quantifier, so only "eventually" is
		// demanded there; cancellation must still be prompt.
		prompt := time.Second
		if env.broken && mode.end == "closerecv" {
			// every EVENT already accepted as input may have to wait for one full
			// retry cycle (1s+2s+4s of back-off) of the batch in front of it
			nEv := 0
			for i := 0; i < cut; i++ {
				if c.History[i].T == "EVENT" {
					nEv++
				}
			}
			prompt = time.Duration(nEv+1)*7*time.Second + time.Second
		}
		if env.stalled && !env.broken && mode.end == "closerecv" {
			// likewise: an inbound close is noticed only after the message in
			// progress got its turn at the stalled disk
			nEv := 0
			for i := 0; i < cut; i++ {
				if c.History[i].T == "EVENT" {
					nEv++
				}
			}
			prompt = time.Duration(nEv+1)*c13StallFor + time.Second
		}
		if !cl.Returned.Load() {
			sim.Advance(prompt)
		}
		if !cl.Returned.Load() {
			sim.Advance(10 * time.Second)
			if !cl.Returned.Load() {
				sim.Violate("C13", "does-not-return", map[string]string{"end": mode.end}, "ServeNostr has not returned %v of simulated time after the session was ended (%s, peer stalled=%v)", prompt+10*time.Second, mode.end, mode.stall)
			} else {
				sim.Violate("C13", "returns-late", map[string]string{"end": mode.end}, "ServeNostr returned only after more than %v of simulated time", prompt)
			}
		}
		cl.Stop()
		sim.Drive()
		// O2: no goroutine of the session left
		if cl.Returned.Load() {
			if extra := censusDiff(base, census()); len(extra) > 0 {
				sim.Violate("C13", "goroutine-leak", nil, "after ServeNostr returned, goroutines of the session are still there: %s", strings.Join(extra, "; "))
			}
		}
		// O3: router registries empty again
		for i, r := range env.routers {
			if n := simrt.MapEntries(r); n != env.routerBase[i] {
				sim.Violate("C13", "router-registry-leak", nil, "router #%d holds %d registry entries after the session ended, %d before it started", i, n, env.routerBase[i])
			}
		}
		// O4: gauges back
		for i, reg := range env.regs {
			g, err := mwGather(reg)
			if err != nil {
				continue
			}
			if v := g["mocrelay_connection_count{}"]; v != 0 {
				sim.Violate("C13", "connection-gauge-leak", nil, "prometheus middleware #%d: connection gauge is %v after the only session ended", i, v)
			}
			if v := g["mocrelay_req_count{}"]; v != 0 {
				sim.Violate("C13", "subscription-gauge-leak", nil, "prometheus middleware #%d: subscription gauge is %v after the only session ended", i, v)
			}
		}
		// handler shutdown: its own goroutines must go too
		simrt.SetFaultPlan(nil) // the disk answers again
		env.hcancel()
		sim.Drive()
		sim.Advance(4 * time.Second) // SQLite handler: flush with 3s timeout
		if env.stalled {
			sim.Advance(c13StallFor + time.Second) // a BeginTx that was already hanging
		}
		for _, db := range env.dbs {
			db.Close()
		}
		sim.Drive()
		hh := fnv.New64a()
		tj, _ := json.Marshal(c.Tree)
		fmt.Fprintf(hh, "%s|%d|%s|%v", tj, cut, mode.end, mode.stall)
		st.State(hh.Sum64())
		st.Completed = true
	})
}
