package props

import (
	"context"
	"database/sql"
	"encoding/json"
	"errors"
	"fmt"
	"hash/fnv"
	"os"
	"path/filepath"
	"sort"
	"testing"
	"time"

	"github.com/high-moctane/mocrelay"
	mocsqlite "github.com/high-moctane/mocrelay/handler/sqlite"
	"pgregory.net/rapid"
	"verif.local/sim/ref"
	"verif.local/sim/simrt"
)

// C14: for each sampled (pre-history, batch) EVERY driver call of the batch is a
// fault point that is exercised: injected I/O error, context cancellation and
// process crash (file copy + SQLite recovery) at call k, real SQLITE_FULL at
// three page limits, retry sequences through the handler's back-off under the
// simulated clock, close/reopen and dirty reopen between batches.

type C14Case struct {
	Events   []cacheEv `json:"events"`
	Pre      [][]int   `json:"pre"`
	Batch    []int     `json:"batch"`
	Journal  string    `json:"journal"`
	MaxConns int       `json:"max_conns"`
	Seed     uint32    `json:"xxhash_seed"`
	FailPair [2]int    `json:"fail_pair"` // handler retry: fault points of attempts 1 and 2 (taken modulo N)
	// Large > 0: that many further plain events join the batch (a batch as big as
	// a busy relay's); only a sample of its fault points is executed
	Large int `json:"large,omitempty"`
}

type c14Engine struct{}

func init() { register("sqlite-faults", c14Engine{}, "C14") }

func (c14Engine) Decode(b []byte) (any, error) {
	var c C14Case
	err := json.Unmarshal(b, &c)
	return &c, err
}

func (c14Engine) Gen(t *rapid.T, tier string) any {
	c := &C14Case{}
	c.Events = genSQLEvents(t, false)
	n := len(c.Events)
	c.Journal = rapid.SampledFrom([]string{"DELETE", "WAL"}).Draw(t, "journal")
	c.MaxConns = rapid.IntRange(1, 3).Draw(t, "maxconns")
	c.Seed = uint32(rapid.Uint32().Draw(t, "xxseed"))
	if rapid.IntRange(0, 2).Draw(t, "ownseed") == 0 {
		c.Seed = 0 // the repository's own seed creation path
	}
	np := rapid.IntRange(0, 3).Draw(t, "npre")
	for i := 0; i < np; i++ {
		var b []int
		for j, m := 0, rapid.IntRange(1, 3).Draw(t, "presize"); j < m; j++ {
			b = append(b, rapid.IntRange(0, n-1).Draw(t, "pev"))
		}
		c.Pre = append(c.Pre, b)
	}
	maxB := 3
	if tier == "thorough" {
		maxB = 5
	}
	for j, m := 0, rapid.IntRange(1, maxB).Draw(t, "batchsize"); j < m; j++ {
		c.Batch = append(c.Batch, rapid.IntRange(0, n-1).Draw(t, "bev"))
	}
	c.FailPair = [2]int{rapid.IntRange(0, 40).Draw(t, "f1"), rapid.IntRange(0, 40).Draw(t, "f2")}
	if rapid.IntRange(0, 11).Draw(t, "large") == 0 {
		c.Large = rapid.SampledFrom([]int{130, 257, 300, 513}).Draw(t, "largen")
		c.FailPair = [2]int{rapid.IntRange(0, 4000).Draw(t, "lf1"), rapid.IntRange(0, 4000).Draw(t, "lf2")}
	}
	return c
}

type c14Probe struct {
	name    string
	fs      []*mocrelay.ReqFilter
	limited bool
}

func c14Probes(evs []*mocrelay.Event, batch []*mocrelay.Event) []c14Probe {
	one := int64(1)
	var ids []string
	for _, e := range batch {
		ids = append(ids, e.ID)
	}
	refd := map[string][]string{}
	for _, e := range evs {
		for _, tg := range e.Tags {
			if len(tg) >= 2 && (tg[0] == "e" || tg[0] == "a") {
				refd[tg[0]] = append(refd[tg[0]], tg[1])
			}
		}
	}
	ps := []c14Probe{
		{"all", []*mocrelay.ReqFilter{{}}, false},
		{"kind1-or-5", []*mocrelay.ReqFilter{{Kinds: []int64{1}}, {Kinds: []int64{5}}}, false},
		{"replaceable-kinds", []*mocrelay.ReqFilter{{Kinds: []int64{0, 3, 10002, 30000, 30001}}}, false},
		{"author0", []*mocrelay.ReqFilter{{Authors: []string{ref.Authors[0].Pubkey}}}, false},
		{"batch-ids", []*mocrelay.ReqFilter{{IDs: ids}}, false},
		{"limit1", []*mocrelay.ReqFilter{{Limit: &one}}, true},
	}
	if len(refd) > 0 {
		ps = append(ps, c14Probe{"refs", []*mocrelay.ReqFilter{{Tags: refd}}, false})
	}
	return ps
}

type c14Answers map[string]string

func c14Ask(d *sqlDB, ps []c14Probe) (c14Answers, error) {
	out := c14Answers{}
	var all []*mocrelay.Event
	for _, p := range ps {
		ans, err := d.query(p.fs)
		if err != nil {
			return nil, fmt.Errorf("probe %s: %w", p.name, err)
		}
		if p.name == "all" {
			all = ans
		}
		if p.limited {
			// ties make the limited answer a choice: judge it against the
			// match-everything answer of the same state instead of comparing states
			if msg := ref.CheckAnswer(all, p.fs, ans); msg != "" {
				out[p.name] = "INVALID: " + msg
			} else {
				out[p.name] = "ok"
			}
			continue
		}
		out[p.name] = answersKey(ans)
	}
	return out, nil
}

func c14Diff(a, b c14Answers) string {
	ks := make([]string, 0, len(a))
	for k := range a {
		ks = append(ks, k)
	}
	sort.Strings(ks)
	for _, k := range ks {
		if v := a[k]; b[k] != v {
			return fmt.Sprintf("probe %q: %s  vs  %s", k, truncate(v, 300), truncate(b[k], 300))
		}
	}
	return ""
}

func (c14Engine) Exec(t *testing.T, cc any) *simrt.Result {
	c := cc.(*C14Case)
	return simrt.Run(t, simrt.Schedule{}, 400000, func(sim *simrt.Sim) {
		st := &sim.Res.Stats
		evs := (&CacheCase{Events: c.Events}).build()
		root, err := os.MkdirTemp("", "verif-c14-")
		if err != nil {
			sim.Res.Harness = err.Error()
			return
		}
		defer os.RemoveAll(root)
		defer simrt.SetFaultPlan(nil)
		var batch []*mocrelay.Event
		for _, i := range c.Batch {
			batch = append(batch, evs[i])
		}
		for i := 0; i < c.Large; i++ {
			sp := simrt.EvSpec{Author: i % 3, Kind: 1, CreatedAt: int64(1000 + i), Content: fmt.Sprintf("L%d", i), Tags: [][]string{{"t", fmt.Sprintf("l%d", i%7)}}}
			batch = append(batch, sp.Event())
		}
		probes := c14Probes(evs, batch)
		open := func(dir string) *sqlDB {
			d, err := openSQL(sim, dir, c.Journal, false, c.MaxConns, c.Seed)
			if err != nil {
				sim.Res.Harness = "open " + dir + ": " + err.Error()
				return nil
			}
			return d
		}
		bg := context.Background()
		fail := func(class string, attrs map[string]string, format string, a ...any) {
			sim.Violate("C14", class, attrs, format, a...)
		}
		// ---- 1. pre-history with close/reopen (and dirty reopen) between batches
		p0 := filepath.Join(root, "p0")
		os.MkdirAll(p0, 0o755)
		d := open(p0)
		if d == nil {
			return
		}
		seed0 := d.seed
		twinDir := filepath.Join(root, "twin")
		os.MkdirAll(twinDir, 0o755)
		twin := open(twinDir) // never closed, never failed
		if twin == nil {
			return
		}
		defer func() { twin.db.Close() }()
		for bi, b := range c.Pre {
			var pb []*mocrelay.Event
			for _, i := range b {
				pb = append(pb, evs[i])
			}
			if err := d.insert(bg, pb); err != nil {
				fail("insert-error", nil, "fault-free insertion of pre-history batch %d failed: %v", bi, err)
				return
			}
			if err := twin.insert(bg, pb); err != nil {
				sim.Res.Harness = "twin insert: " + err.Error()
				return
			}
			before, err := c14Ask(d, probes)
			if err != nil {
				fail("query-error", nil, "%v", err)
				return
			}
			// dirty reopen: a second handle while the first is still open
			if bi%2 == 1 {
				st.Fault("dirty-reopen")
				d2 := open(p0)
				if d2 == nil {
					return
				}
				got, err := c14Ask(d2, probes)
				d2.db.Close()
				if err != nil {
					fail("query-error", nil, "second handle: %v", err)
					return
				}
				if df := c14Diff(before, got); df != "" {
					fail("reopen-changes-answer", map[string]string{"how": "dirty"}, "a second handle on the database answers differently after pre-history batch %d: %s", bi, df)
				}
			}
			st.Fault("reopen")
			d.db.Close()
			if d = open(p0); d == nil {
				return
			}
			if d.seed != seed0 {
				fail("seed-not-persistent", nil, "the key seed of the database changed across close and reopen")
			}
			after, err := c14Ask(d, probes)
			if err != nil {
				fail("query-error", nil, "after reopen: %v", err)
				return
			}
			if df := c14Diff(before, after); df != "" {
				fail("reopen-changes-answer", map[string]string{"how": "close-open"}, "closing and reopening after pre-history batch %d changed an answer: %s", bi, df)
			}
		}
		Q0, err := c14Ask(d, probes)
		if err != nil {
			fail("query-error", nil, "%v", err)
			return
		}
		d.db.Close()
		// ---- 2. baseline on a copy: learn N, Q1, idempotence after success
		fresh := func(name string) *sqlDB {
			dir := filepath.Join(root, name)
			if err := copyFiles(p0, dir); err != nil {
				sim.Res.Harness = "copy: " + err.Error()
				return nil
			}
			return open(dir)
		}
		plan := &simrt.FaultPlan{}
		simrt.SetFaultPlan(plan)
		b0 := fresh("base")
		if b0 == nil {
			return
		}
		plan.Arm()
		err = b0.insert(bg, batch)
		plan.Disarm()
		N := plan.Points()
		if err != nil {
			fail("insert-error", nil, "fault-free insertion of the batch failed: %v", err)
			b0.db.Close()
			return
		}
		Q1, err := c14Ask(b0, probes)
		if err != nil {
			fail("query-error", nil, "%v", err)
			b0.db.Close()
			return
		}
		if err := b0.insert(bg, batch); err != nil {
			fail("insert-error", nil, "inserting the same batch again failed: %v", err)
		}
		if q, err := c14Ask(b0, probes); err == nil {
			if df := c14Diff(Q1, q); df != "" {
				fail("not-idempotent", map[string]string{"after": "success"}, "inserting the same batch again after a success changed an answer: %s", df)
			}
		}
		b0.db.Close()
		// replacement / deletion across the restart: the reopened database must
		// answer like a twin that was never closed
		if err := twin.insert(bg, batch); err != nil {
			sim.Res.Harness = "twin insert: " + err.Error()
			return
		}
		if qt, err := c14Ask(twin, probes); err == nil {
			if df := c14Diff(qt, Q1); df != "" {
				fail("restart-changes-semantics", nil, "after close/reopen the batch leads to other answers than on a database that was never closed (replacement/deletion across restart): %s", df)
			}
		}
		if N == 0 {
			st.Completed = true
			return // nothing storable in the batch: no fault point
		}
		st.Probe(fmt.Sprintf("fault_points_%02d", min(N, 30)))
		// ---- 3. every fault point k: I/O error, cancellation, crash
		sampled := map[int]bool{}
		if c.Large > 0 {
			st.Probe("large_batch")
			for _, k := range []int{N, N - 1, N * 3 / 4, N/2 + 1, c.FailPair[0]%N + 1, c.FailPair[1]%N + 1} {
				sampled[max(k, 1)] = true
			}
		}
		for k := 1; k <= N; k++ {
			if c.Large > 0 && !sampled[k] {
				continue
			}
			// (a) injected I/O error at call k
			dk := fresh(fmt.Sprintf("err%d", k))
			if dk == nil {
				return
			}
			plan.FailAt, plan.Hook = k, nil
			plan.Arm()
			err := dk.insert(bg, batch)
			plan.Disarm()
			what := "?"
			if k-1 < len(plan.Log) {
				what = plan.Log[k-1]
			}
			st.Fault("drv-err")
			at := map[string]string{"at": pointKind(what)}
			if err == nil {
				fail("error-swallowed", at, "driver call %s failed with an injected error but insertEvents reported success", what)
			}
			q, qerr := c14Ask(dk, probes)
			if qerr != nil {
				fail("query-error", at, "after a failure at %s: %v", what, qerr)
			} else if df := c14Diff(Q0, q); df != "" {
				fail("not-atomic", at, "batch failed at driver call %s (%d of %d) but an answer differs from before the batch: %s", what, k, N, df)
			}
			// retry after the failure
			plan.FailAt = 0
			if err := dk.insert(bg, batch); err != nil {
				fail("retry-fails", at, "retry after a failure at %s failed: %v", what, err)
			} else if q, err := c14Ask(dk, probes); err == nil {
				if df := c14Diff(Q1, q); df != "" {
					fail("not-idempotent", map[string]string{"after": "failure"}, "fail at %s then succeed gives other answers than a single successful insertion: %s", what, df)
				}
			}
			dk.db.Close()
			// (b) context cancelled right before call k; (c) crash snapshot before call k
			dc := fresh(fmt.Sprintf("cx%d", k))
			if dc == nil {
				return
			}
			ctx, cancel := context.WithCancel(bg)
			snap := filepath.Join(root, fmt.Sprintf("snap%d", k))
			kk := k
			plan.FailAt = 0
			plan.Hook = func(n int, what string) error {
				if n == kk {
					if err := copyFiles(dc.dir, snap); err != nil {
						return err
					}
					cancel()
				}
				return nil
			}
			plan.Arm()
			err = dc.insert(ctx, batch)
			plan.Disarm()
			plan.Hook = nil
			cancel()
			// database/sql rolls a cancelled transaction back on a goroutine of its
			// own: let it finish (quiescence of the bubble) so that what follows
			// does not depend on real-time lock waits inside SQLite
			sim.S.Wait()
			st.Fault("drv-cancel")
			if err != nil { // (cancellation may come too late to matter for the last calls)
				if q, qerr := c14Ask(dc, probes); qerr != nil {
					fail("query-error", at, "after cancellation before %s: %v", what, qerr)
				} else if df := c14Diff(Q0, q); df != "" {
					fail("not-atomic", map[string]string{"at": "cancel-" + pointKind(what)}, "batch cancelled before driver call %s (%d of %d) but an answer differs from before the batch: %s", what, k, N, df)
				}
				// retry after the cancelled attempt (database/sql may have discarded
				// the connection the attempt ran on)
				if err := dc.insert(bg, batch); err != nil {
					fail("retry-fails", map[string]string{"at": "cancel-" + pointKind(what)}, "retry after a batch cancelled before %s failed: %v", what, err)
				} else if q, err := c14Ask(dc, probes); err == nil {
					if df := c14Diff(Q1, q); df != "" {
						fail("not-idempotent", map[string]string{"after": "cancel"}, "cancelled before %s then succeed gives other answers than a single successful insertion: %s", what, df)
					}
				}
			} else if q, qerr := c14Ask(dc, probes); qerr == nil {
				if df := c14Diff(Q1, q); df != "" {
					fail("not-atomic", map[string]string{"at": "cancel-" + pointKind(what)}, "batch reported success although cancelled before %s, and answers are not those of a successful insertion: %s", what, df)
				}
			}
			dc.db.Close()
			if _, serr := os.Stat(snap); serr != nil {
				// this execution made fewer driver calls than the baseline (only
				// possible when the two databases differ, which is reported above)
				st.Probe("crash_point_not_reached")
				continue
			}
			st.Fault("crash")
			if ds := open(snap); ds != nil {
				q, qerr := c14Ask(ds, probes)
				ds.db.Close()
				if qerr != nil {
					fail("query-error", at, "crash copy before %s: %v", what, qerr)
				} else if df := c14Diff(Q0, q); df != "" {
					fail("crash-not-atomic", at, "process death before driver call %s (%d of %d): after SQLite's recovery an answer differs from before the batch: %s", what, k, N, df)
				}
			} else {
				return
			}
			os.RemoveAll(snap)
		}
		if c.Large > 0 {
			// ---- 5L. the handler flushes the large batch as ONE batch; the disk
			// breaks for good shortly before the end of the first attempt, so every
			// retry fails too and the handler gives the batch up: every answer is
			// the one from before the batch
			dl := fresh("handler-large")
			if dl == nil {
				return
			}
			distinct := map[string]bool{}
			for _, e := range batch {
				distinct[e.ID] = true
			}
			lctx, lcancel := context.WithCancel(bg)
			hl, err := mocsqlite.NewSQLiteHandler(lctx, dl.db, &mocsqlite.SQLiteHandlerOption{EventBulkInsertNum: len(distinct), EventBulkInsertDur: 0, MaxLimit: mocsqlite.NoLimit})
			if err != nil {
				sim.Res.Harness = "NewSQLiteHandler: " + err.Error()
				lcancel()
				return
			}
			brokenFrom, begins, refused := N-1-c.FailPair[0]%3, 0, 0
			plan.FailAt = 0
			plan.Hook = func(n int, what string) error {
				if what == "begin" {
					begins++
					return nil
				}
				if n >= brokenFrom {
					refused++
					return simrt.ErrInjected
				}
				return nil
			}
			plan.Arm()
			cll := sim.NewClient(bg, "hl", nil)
			cll.Serve(hl)
			for i, e := range batch {
				cll.Do(simrt.Op{Kind: "send", Msg: &simrt.Msg{T: "EVENT", EvObj: e}})
				if i%32 == 31 {
					sim.Drive() // (the client's queue of injected operations is bounded)
				}
			}
			sim.Drive()
			st.Fault("disk-broken-for-good-late-in-large-batch")
			sim.Advance(1*time.Second + 10*time.Millisecond)
			sim.Advance(2*time.Second + 10*time.Millisecond)
			sim.Advance(4*time.Second + 10*time.Millisecond)
			plan.Disarm()
			plan.Hook = nil
			if refused == 0 {
				st.Probe("large_handler_batch_not_flushed")
			} else if q, qerr := c14Ask(dl, probes); qerr != nil {
				fail("query-error", nil, "after the handler gave a large batch up: %v", qerr)
			} else if d := c14Diff(Q0, q); d != "" {
				fail("not-atomic", map[string]string{"at": "handler-large-batch"}, "handler batch of %d events, driver fails from call %d of %d on (%d transactions begun, all failed): an answer differs from before the batch: %s", len(batch), brokenFrom, N, begins, d)
			}
			cll.Cancel()
			lcancel()
			sim.Drive()
			sim.Advance(4 * time.Second)
			dl.db.Close()
			st.NonTrivial = true
			st.Completed = true
			return
		}
		// ---- 4. real SQLITE_FULL at three page limits (512-byte pages so that the
		// batch needs new pages; pre-history replayed on that database)
		for extra := 0; extra < 3; extra++ {
			dir := filepath.Join(root, fmt.Sprintf("full%d", extra))
			os.MkdirAll(dir, 0o755)
			smallPages = true
			df := open(dir)
			smallPages = false
			if df == nil {
				return
			}
			df.db.SetMaxOpenConns(1)
			for _, b := range c.Pre {
				var pb []*mocrelay.Event
				for _, i := range b {
					pb = append(pb, evs[i])
				}
				if err := df.insert(bg, pb); err != nil {
					sim.Res.Harness = "pre-history on small-page database: " + err.Error()
					return
				}
			}
			q0f, qerr := c14Ask(df, probes)
			if qerr != nil {
				fail("query-error", nil, "%v", qerr)
				return
			}
			if d := c14Diff(Q0, q0f); d != "" {
				// the replayed pre-history does not give the same state (only possible
				// when reopening itself changed something, which is reported above):
				// the disk-full sub-test has no valid baseline, skip it
				st.Probe("disk_full_subtest_skipped")
				df.db.Close()
				break
			}
			var pages, lim int
			df.db.QueryRow("pragma page_count").Scan(&pages)
			df.db.QueryRow(fmt.Sprintf("pragma max_page_count = %d", pages+extra)).Scan(&lim)
			err := df.insert(bg, batch)
			if err != nil {
				st.Fault("drv-full")
				if q, qerr := c14Ask(df, probes); qerr != nil {
					fail("query-error", nil, "after SQLITE_FULL: %v", qerr)
				} else if d := c14Diff(Q0, q); d != "" {
					fail("not-atomic", map[string]string{"at": "disk-full"}, "batch failed with %v (page limit %d) but an answer differs from before the batch: %s", err, lim, d)
				}
				df.db.QueryRow("pragma max_page_count = 1073741823").Scan(&lim)
				if err := df.insert(bg, batch); err != nil {
					fail("retry-fails", map[string]string{"at": "disk-full"}, "retry after SQLITE_FULL failed: %v", err)
				}
			}
			if q, qerr := c14Ask(df, probes); qerr == nil {
				if d := c14Diff(Q1, q); d != "" {
					fail("not-idempotent", map[string]string{"after": "disk-full"}, "after (possibly) hitting a full disk and retrying, answers differ from a single successful insertion: %s", d)
				}
			}
			df.db.Close()
		}
		// ---- 5. the handler's retry loop with its real back-off under the simulated clock
		dh := fresh("handler")
		if dh == nil {
			return
		}
		distinct := map[string]bool{}
		for _, e := range batch {
			distinct[e.ID] = true
		}
		hctx, hcancel := context.WithCancel(bg)
		h, err := mocsqlite.NewSQLiteHandler(hctx, dh.db, &mocsqlite.SQLiteHandlerOption{EventBulkInsertNum: len(distinct), EventBulkInsertDur: 0, MaxLimit: mocsqlite.NoLimit})
		if err != nil {
			sim.Res.Harness = "NewSQLiteHandler: " + err.Error()
			hcancel()
			return
		}
		attempt := 0
		f1, f2 := c.FailPair[0]%N+1, c.FailPair[1]%N+1
		plan.FailAt = 0
		// attempt-relative numbering: re-arm at every begin
		base, injected := 0, 0
		plan.Hook = func(n int, what string) error {
			if what == "begin" {
				attempt++
				base = n - 1
			}
			rel := n - base
			if (attempt == 1 && rel == f1) || (attempt == 2 && rel == f2) {
				injected++
				return simrt.ErrInjected
			}
			return nil
		}
		plan.Arm()
		cl := sim.NewClient(bg, "h0", nil)
		cl.Serve(h)
		for _, e := range batch {
			cl.Do(simrt.Op{Kind: "send", Msg: &simrt.Msg{T: "EVENT", EvObj: e}})
		}
		sim.Drive()
		if injected >= 1 {
			// intake goes on while the inserter sits in its back-off: ephemeral
			// events (never stored, so the expected answers stay those of the batch)
			st.Probe("intake_during_backoff")
			for i := 0; i < 3; i++ {
				sp := simrt.EvSpec{Author: 1, Kind: 20001, CreatedAt: int64(2000 + i), Content: fmt.Sprintf("late-%d", i)}
				cl.Do(simrt.Op{Kind: "send", Msg: &simrt.Msg{T: "EVENT", EvObj: sp.Event()}})
			}
			sim.Drive()
		}
		st.Fault("retry-backoff")
		sim.Advance(1*time.Second + 10*time.Millisecond) // first back-off
		sim.Advance(2*time.Second + 10*time.Millisecond) // second back-off
		plan.Disarm()
		plan.Hook = nil
		if attempt != 0 && attempt != injected+1 {
			// every failed attempt must have been followed by another one
			fail("retry-missing", nil, "after %d injected failure(s) and 3s of simulated time %d attempt(s) were made", injected, attempt)
		}
		if q, qerr := c14Ask(dh, probes); qerr != nil {
			fail("query-error", nil, "after handler retries: %v", qerr)
		} else if d := c14Diff(Q1, q); d != "" {
			fail("not-idempotent", map[string]string{"after": "handler-retry"}, "handler: fail at point %d, fail at point %d, succeed - answers differ from a single successful insertion: %s", f1, f2, d)
		}
		cl.Cancel()
		hcancel()
		sim.Drive()
		sim.Advance(4 * time.Second)
		dh.db.Close()
		// ---- 5T. the same through the handler's periodic flush (batch never
		// full, 1 s ticker): the first attempt fails, and while the inserter sits
		// in its back-off further STORABLE events arrive; after the retry and one
		// more flush the answers are those of the batch plus the late events
		if dtw, dt := fresh("tick-twin"), fresh("tick"); dtw != nil && dt != nil {
			var late []*mocrelay.Event
			for i := 0; i < 2; i++ {
				sp := simrt.EvSpec{Author: 2, Kind: 1, CreatedAt: int64(3000 + i), Content: fmt.Sprintf("late-tick-%d", i)}
				late = append(late, sp.Event())
			}
			err1, err2 := dtw.insert(bg, batch), error(nil)
			if err1 == nil {
				err2 = dtw.insert(bg, late)
			}
			Q1L, qerr := c14Ask(dtw, probes)
			dtw.db.Close()
			if err1 != nil || err2 != nil || qerr != nil {
				fail("insert-error", nil, "fault-free insertion of the batch and two further events failed: %v %v %v", err1, err2, qerr)
			} else {
				tctx, tcancel := context.WithCancel(bg)
				ht, err := mocsqlite.NewSQLiteHandler(tctx, dt.db, &mocsqlite.SQLiteHandlerOption{EventBulkInsertNum: len(distinct) + 5, EventBulkInsertDur: time.Second, MaxLimit: mocsqlite.NoLimit})
				if err != nil {
					sim.Res.Harness = "NewSQLiteHandler: " + err.Error()
					tcancel()
					return
				}
				begun, hit := 0, 0
				plan.FailAt = 0
				tbase := 0
				plan.Hook = func(n int, what string) error {
					if what == "begin" {
						begun++
						tbase = n - 1
					}
					if begun == 1 && n-tbase == f1 {
						hit++
						return simrt.ErrInjected
					}
					return nil
				}
				plan.Arm()
				ct := sim.NewClient(bg, "ht", nil)
				ct.Serve(ht)
				for _, e := range batch {
					ct.Do(simrt.Op{Kind: "send", Msg: &simrt.Msg{T: "EVENT", EvObj: e}})
				}
				sim.Drive()
				sim.Advance(1*time.Second + 10*time.Millisecond) // tick: periodic flush, first attempt
				for _, e := range late {
					ct.Do(simrt.Op{Kind: "send", Msg: &simrt.Msg{T: "EVENT", EvObj: e}})
				}
				sim.Drive()
				st.Fault("periodic-flush-fails-intake-goes-on")
				for i := 0; i < 4; i++ {
					sim.Advance(1*time.Second + 10*time.Millisecond)
				}
				plan.Disarm()
				plan.Hook = nil
				if hit == 0 {
					st.Probe("tick_flush_fault_not_reached")
				}
				if q, qerr := c14Ask(dt, probes); qerr != nil {
					fail("query-error", nil, "after the periodic flush: %v", qerr)
				} else if d := c14Diff(Q1L, q); d != "" {
					fail("not-idempotent", map[string]string{"after": "periodic-flush-retry"}, "handler with a 1 s periodic flush: first attempt failed at point %d (%d injected), two further events arrived during the back-off, 5 s later the answers differ from a fault-free insertion of the batch and those events: %s", f1, hit, d)
				}
				ct.Cancel()
				tcancel()
				sim.Drive()
				sim.Advance(4 * time.Second)
			}
			dt.db.Close()
		} else {
			return
		}
		// ---- 6. shutdown: events the handler acknowledged but still holds in its
		// partial batch must reach the database when the handler's context ends
		// (its 3s flush), and survive the reopen
		ds := fresh("shutdown")
		if ds == nil {
			return
		}
		sctx, scancel := context.WithCancel(bg)
		hs, err := mocsqlite.NewSQLiteHandler(sctx, ds.db, &mocsqlite.SQLiteHandlerOption{EventBulkInsertNum: len(distinct) + 5, EventBulkInsertDur: 0, MaxLimit: mocsqlite.NoLimit})
		if err != nil {
			sim.Res.Harness = "NewSQLiteHandler: " + err.Error()
			scancel()
			return
		}
		cs := sim.NewClient(bg, "h1", nil)
		cs.Serve(hs)
		for _, e := range batch {
			cs.Do(simrt.Op{Kind: "send", Msg: &simrt.Msg{T: "EVENT", EvObj: e}})
		}
		sim.Drive()
		acked := 0
		for _, g := range cs.Got {
			if okm, is := g.Msg.(*mocrelay.ServerOKMsg); is && okm.Accepted {
				acked++
			}
		}
		st.Fault("shutdown-with-partial-batch")
		cs.Cancel()
		scancel()
		sim.Drive()
		sim.Advance(4 * time.Second)
		ds.db.Close()
		if acked == len(batch) {
			if dr := open(ds.dir); dr != nil {
				q, qerr := c14Ask(dr, probes)
				dr.db.Close()
				if qerr != nil {
					fail("query-error", nil, "after handler shutdown and reopen: %v", qerr)
				} else if d := c14Diff(Q1, q); d != "" {
					fail("shutdown-loses-acknowledged-events", nil, "the handler acknowledged %d EVENTs (partial batch), was shut down and the database reopened: answers differ from a successful insertion of those events: %s", acked, d)
				}
			} else {
				return
			}
		}
		// ---- 7. the handler across a restart: the database of section 6 (batch
		// stored through a handler that was shut down) is reopened under a NEW
		// handler; after one more (older) event every probe asked through the
		// handler answers exactly as the database asked directly
		if dr := open(ds.dir); dr != nil {
			rctx, rcancel := context.WithCancel(bg)
			hr, err := mocsqlite.NewSQLiteHandler(rctx, dr.db, &mocsqlite.SQLiteHandlerOption{EventBulkInsertNum: 1, EventBulkInsertDur: 0, MaxLimit: mocsqlite.NoLimit})
			if err != nil {
				sim.Res.Harness = "NewSQLiteHandler: " + err.Error()
				rcancel()
				return
			}
			st.Fault("handler-restart")
			cr := sim.NewClient(bg, "h2", nil)
			cr.Serve(hr)
			// the event with the smallest created_at of the case, once more
			oldest := evs[0]
			for _, e := range evs {
				if e.CreatedAt < oldest.CreatedAt {
					oldest = e
				}
			}
			cr.Do(simrt.Op{Kind: "send", Msg: &simrt.Msg{T: "EVENT", EvObj: oldest}})
			sim.Drive()
			sim.Advance(100 * time.Millisecond)
			rprobes := append([]c14Probe{}, probes...)
			seenTs := map[int64]bool{}
			for _, e := range evs {
				if !seenTs[e.CreatedAt] {
					seenTs[e.CreatedAt] = true
					ts := e.CreatedAt
					rprobes = append(rprobes, c14Probe{fmt.Sprintf("since-%d", ts), []*mocrelay.ReqFilter{{Since: &ts}}, false})
				}
			}
			sort.Slice(rprobes, func(i, j int) bool { return rprobes[i].name < rprobes[j].name })
			for pi, pr := range rprobes {
				if pr.limited {
					continue
				}
				direct, derr := dr.query(pr.fs)
				if derr != nil {
					fail("query-error", nil, "after restart: %v", derr)
					break
				}
				n0 := len(cr.Got)
				var fss []simrt.FilterSpec
				for _, f := range pr.fs {
					fss = append(fss, simrt.FilterSpec{IDs: f.IDs, Authors: f.Authors, Kinds: f.Kinds, Tags: f.Tags, Since: f.Since, Until: f.Until, Limit: f.Limit})
				}
				cr.Do(simrt.Op{Kind: "send", Msg: &simrt.Msg{T: "REQ", Sub: fmt.Sprintf("p%d", pi), Filters: fss}})
				sim.Drive()
				var via []*mocrelay.Event
				for _, g := range cr.Got[n0:] {
					if em, is := g.Msg.(*mocrelay.ServerEventMsg); is {
						via = append(via, em.Event)
					}
				}
				if a, b := answersKey(direct), answersKey(via); a != b {
					fail("restart-changes-semantics", map[string]string{"how": "handler"}, "after shutdown, reopen and a new handler, probe %q asked through the handler answers %s, the database asked directly %s", pr.name, truncate(b, 300), truncate(a, 300))
					break
				}
			}
			cr.Cancel()
			rcancel()
			sim.Drive()
			sim.Advance(4 * time.Second)
			dr.db.Close()
		} else {
			return
		}
		h64 := fnv.New64a()
		fmt.Fprintf(h64, "%d|%s|%d", N, c.Journal, len(c.Pre))
		st.State(h64.Sum64())
		st.NonTrivial = N >= 8
		st.Completed = true
	})
}

func pointKind(what string) string {
	for i := 0; i < len(what); i++ {
		if what[i] == ':' {
			return what[i+1:]
		}
	}
	return what
}

var _ = errors.New
var _ = sql.ErrNoRows
var _ = json.Marshal
