package props

import (
	"context"
	"encoding/json"
	"fmt"
	"hash/fnv"
	"sort"
	"strings"
	"testing"
	"time"

	"github.com/anishathalye/porcupine"
	"github.com/high-moctane/mocrelay"
	"github.com/high-moctane/mocrelay/verifsim"
	"pgregory.net/rapid"
	"verif.local/sim/ref"
	"verif.local/sim/simrt"
)

// C15: one shared EventCache under concurrent clients (direct calls or
// CacheHandler sessions), statement-level interleaving; linearizability against
// a sequential functional model (porcupine), with the simulated lock's
// acquisition order as a cheap witness.

type c15Op struct {
	Op      string             `json:"op"` // add | find | len
	Ev      int                `json:"ev,omitempty"`
	Filters []simrt.FilterSpec `json:"filters,omitempty"`
	// Shared: the query is made with the case's shared filter list - in direct
	// mode the very same []*ReqFilter value for every client (a merge hands one
	// REQ message to all of its children: queries must not write to their input)
	Shared bool `json:"shared,omitempty"`
}

type C15Case struct {
	Cap     int            `json:"cap"`
	Mode    string         `json:"mode"` // direct | session
	Events  []cacheEv      `json:"events"`
	Clients [][]c15Op      `json:"clients"`
	// SharedFilters: authors and ids lists in descending order, with a repeat
	SharedFilters []simrt.FilterSpec `json:"shared_filters,omitempty"`
	Sched         simrt.Schedule     `json:"sched"`
}

type c15Engine struct{}

func init() { register("concurrent-cache", c15Engine{}, "C15") }

func (c15Engine) Decode(b []byte) (any, error) {
	var c C15Case
	err := json.Unmarshal(b, &c)
	return &c, err
}

func (c15Engine) Gen(t *rapid.T, tier string) any {
	c := &C15Case{}
	maxOps := 16
	if tier == "thorough" {
		maxOps = 24
	}
	c.Cap = rapid.SampledFrom([]int{1, 2, 2, 3, 4}).Draw(t, "cap")
	c.Mode = rapid.SampledFrom([]string{"direct", "direct", "session"}).Draw(t, "mode")
	if RaceMode {
		c.Mode = "direct"
	}
	cc := &CacheCase{}
	nev := rapid.IntRange(2, 8).Draw(t, "nev")
	genCacheEvents(t, cc, nev)
	// unique created_at: a permutation
	perm := rapid.Permutation(seq(nev)).Draw(t, "created_at")
	for i := range cc.Events {
		cc.Events[i].CreatedAt = int64(perm[i] + 1)
		// few addresses: keep d values to one
		for j, tg := range cc.Events[i].Tags {
			if len(tg) >= 2 && tg[0] == "d" {
				cc.Events[i].Tags[j] = []string{"d", "a"}
			}
		}
	}
	// drop references the statement leaves open ("may"), so that the
	// sequential specification is a function
	for iter := 0; iter < 4; iter++ {
		evs := cc.build()
		changed := false
		for i := range cc.Events {
			if cc.Events[i].Kind != 5 {
				continue
			}
			// any event of the pool that this request references only "may"-wise
			// (a newer version of a referenced address): drop the address references
			mayAny := false
			for j := range evs {
				if delRefs(evs[i], evs[j]) == refMay {
					mayAny = true
				}
			}
			var keep []cacheRef
			for _, r := range cc.Events[i].Refs {
				if r.Tag == "a" && (mayAny || (!r.Bogus && ref.ClassOf(evs[r.Target].Kind) != ref.Addressable)) {
					changed = true
					continue
				}
				keep = append(keep, r)
			}
			cc.Events[i].Refs = keep
		}
		if !changed {
			break
		}
	}
	c.Events = cc.Events
	evs := cc.build()
	if rapid.IntRange(0, 2).Draw(t, "shared") == 0 {
		var au, ids []string
		for i := range ref.Authors {
			au = append(au, ref.Authors[i].Pubkey)
		}
		for _, e := range evs {
			ids = append(ids, e.ID)
		}
		sort.Sort(sort.Reverse(sort.StringSlice(au)))
		sort.Sort(sort.Reverse(sort.StringSlice(ids)))
		if len(au) > 3 {
			au = au[:3]
		}
		au = append(au, au[0])
		ids = append(ids, ids[0])
		if rapid.IntRange(0, 1).Draw(t, "shared.kind") == 0 {
			c.SharedFilters = []simrt.FilterSpec{{Authors: au}}
		} else {
			c.SharedFilters = []simrt.FilterSpec{{IDs: ids}, {Authors: au[:2], Kinds: []int64{1, 7, 30000}}}
		}
	}
	ncl := rapid.IntRange(2, 4).Draw(t, "nclients")
	total := 0
	for k := 0; k < ncl; k++ {
		n := rapid.IntRange(1, 8).Draw(t, "nops")
		var ops []c15Op
		for i := 0; i < n && total < maxOps; i++ {
			total++
			switch rapid.IntRange(0, 9).Draw(t, "opk") {
			case 0, 1, 2, 3, 4, 5:
				ops = append(ops, c15Op{Op: "add", Ev: rapid.IntRange(0, nev-1).Draw(t, "ev")})
			case 6:
				if c.Mode == "direct" {
					ops = append(ops, c15Op{Op: "len"})
					continue
				}
				fallthrough
			default:
				if len(c.SharedFilters) > 0 && rapid.IntRange(0, 2).Draw(t, "sharedq") == 0 {
					ops = append(ops, c15Op{Op: "find", Filters: c.SharedFilters, Shared: true})
					continue
				}
				var fs []simrt.FilterSpec
				switch rapid.IntRange(0, 5).Draw(t, "listing") {
				case 0, 1, 2:
					fs = []simrt.FilterSpec{{}}
				case 3:
					fs = []simrt.FilterSpec{genFilter(t, evs)}
				default:
					// several filters of one query must see ONE state of the store
					a := rapid.IntRange(0, 2).Draw(t, "mf.author")
					fs = []simrt.FilterSpec{{Authors: []string{ref.Authors[a].Pubkey}}, {Kinds: []int64{0, 3, 5, 10002, 30000, 30001}}}
					if rapid.IntRange(0, 1).Draw(t, "mf.third") == 0 {
						fs = append(fs, simrt.FilterSpec{Kinds: []int64{1, 7}})
					}
				}
				ops = append(ops, c15Op{Op: "find", Filters: fs})
			}
		}
		c.Clients = append(c.Clients, ops)
	}
	c.Sched = GenSchedule(t, 900)
	if c.Sched.Density == 0 && len(c.Sched.Preempt) == 0 {
		c.Sched.Density = 4
		c.Sched.Seed |= 1
	}
	return c
}

func seq(n int) []int {
	s := make([]int, n)
	for i := range s {
		s[i] = i
	}
	return s
}

// ---- sequential functional specification (unique created_at, no "may" refs)

type c15Model struct {
	cap int
	evs []*mocrelay.Event
	by  map[string]*mocrelay.Event
}

func (m *c15Model) decode(state string) []*mocrelay.Event {
	if state == "" {
		return nil
	}
	var out []*mocrelay.Event
	for _, id := range strings.Split(state, ",") {
		out = append(out, m.by[id])
	}
	return out
}

func (m *c15Model) encode(R []*mocrelay.Event) string {
	ids := make([]string, len(R))
	for i, e := range R {
		ids[i] = e.ID
	}
	sort.Strings(ids)
	return strings.Join(ids, ",")
}

// apply returns the verdict (flagFree: the statements do not constrain it) and
// the new retained set.
func (m *c15Model) apply(R []*mocrelay.Event, e *mocrelay.Event) (added, flagFree bool, R2 []*mocrelay.Event) {
	if ref.ClassOf(e.Kind) == ref.Ephemeral {
		return true, true, R
	}
	addr, ok := ref.Address(e)
	if !ok {
		return true, true, R
	}
	for _, r := range R {
		if r.ID == e.ID {
			return false, false, R
		}
		if ref.ClassOf(e.Kind) != ref.Regular {
			if a, ok := ref.Address(r); ok && a == addr && r.CreatedAt > e.CreatedAt {
				return false, false, R
			}
		}
		if delRefs(r, e) == refStrict {
			return false, false, R
		}
	}
	for _, r := range R {
		if ref.ClassOf(e.Kind) != ref.Regular {
			if a, ok := ref.Address(r); ok && a == addr {
				continue // replaced
			}
		}
		if e.Kind == 5 && delRefs(e, r) == refStrict {
			continue // deleted
		}
		R2 = append(R2, r)
	}
	R2 = append(R2, e)
	if len(R2) > m.cap {
		mi := 0
		for i, r := range R2 {
			if r.CreatedAt < R2[mi].CreatedAt {
				mi = i
			}
		}
		R2 = append(R2[:mi:mi], R2[mi+1:]...)
	}
	return true, false, R2
}

func (m *c15Model) find(R []*mocrelay.Event, fs []*mocrelay.ReqFilter) []string {
	sel := map[string]*mocrelay.Event{}
	sorted := append([]*mocrelay.Event(nil), R...)
	sort.Slice(sorted, func(i, j int) bool { return sorted[i].CreatedAt > sorted[j].CreatedAt })
	for _, f := range fs {
		n := int64(0)
		for _, e := range sorted {
			if f.Limit != nil && n >= *f.Limit {
				break
			}
			if ref.Match(e, f) {
				sel[e.ID] = e
				n++
			}
		}
	}
	var out []*mocrelay.Event
	for _, e := range sel {
		out = append(out, e)
	}
	sort.Slice(out, func(i, j int) bool { return out[i].CreatedAt > out[j].CreatedAt })
	ids := make([]string, len(out))
	for i, e := range out {
		ids[i] = e.ID
	}
	return ids
}

type c15In struct {
	op      string
	ev      *mocrelay.Event
	filters []*mocrelay.ReqFilter
}

type c15Out struct {
	added bool
	ids   []string
	n     int
}

func (m *c15Model) step(state string, in c15In, out c15Out) (bool, string) {
	R := m.decode(state)
	switch in.op {
	case "add":
		added, free, R2 := m.apply(R, in.ev)
		if !free && added != out.added {
			return false, state
		}
		return true, m.encode(R2)
	case "find":
		want := m.find(R, in.filters)
		if len(want) != len(out.ids) {
			return false, state
		}
		for i := range want {
			if want[i] != out.ids[i] {
				return false, state
			}
		}
		return true, state
	case "len":
		return out.n == len(R), state
	}
	return false, state
}

type c15Rec struct {
	client int
	idx    int
	in     c15In
	out    c15Out
	call   int64
	ret    int64
	done   bool
}

func (c15Engine) Exec(t *testing.T, cc any) *simrt.Result {
	c := cc.(*C15Case)
	return simrt.Run(t, c.Sched, 400000, func(sim *simrt.Sim) {
		st := &sim.Res.Stats
		evs := (&CacheCase{Events: c.Events}).build()
		model := &c15Model{cap: c.Cap, evs: evs, by: idsOf(evs)}
		h := mocrelay.NewCacheHandler(c.Cap)
		cache := cacheOfOrNil(h)
		if cache == nil && !RaceMode {
			// the store is not there before the first operation: only the
			// handler's own sessions can be used (and must be, from the start)
			cp := *c
			cp.Mode = "session"
			cp.Clients = nil
			for _, ops := range c.Clients {
				var keep []c15Op
				for _, op := range ops {
					if op.Op != "len" { // a session has no way to ask for the size
						keep = append(keep, op)
					}
				}
				cp.Clients = append(cp.Clients, keep)
			}
			c = &cp
			st.Probe("store_built_on_first_use")
		} else if cache == nil {
			cache = cacheOf(h)
		}

		recs := make([][]*c15Rec, len(c.Clients))
		cur := make([]*c15Rec, len(c.Clients)) // op in progress per client
		var lockOrder []*c15Rec
		gname := map[string]int{}
		if RaceMode {
			c.Mode = "direct"
		}
		var sessClients []*simrt.Client
		sim.S.OnLock = func(goid string, lockID int, kind string) {
			if RaceMode {
				return // no shared harness bookkeeping from program goroutines
			}
			k, ok := gname[goid]
			if !ok {
				for i, cl := range sessClients {
					if cl.ServeGoid == goid {
						k, ok = i, true
					}
				}
			}
			if ok && cur[k] != nil {
				lockOrder = append(lockOrder, cur[k])
			}
		}
		sharedFilters := simrt.Filters(c.SharedFilters)
		for k, ops := range c.Clients {
			for i, op := range ops {
				r := &c15Rec{client: k, idx: i}
				r.in.op = op.Op
				switch op.Op {
				case "add":
					r.in.ev = evs[op.Ev]
				case "find":
					r.in.filters = simrt.Filters(op.Filters)
					if op.Shared {
						r.in.filters = sharedFilters
					}
				}
				recs[k] = append(recs[k], r)
			}
		}
		if c.Mode == "direct" {
			for k := range c.Clients {
				k := k
				name := fmt.Sprintf("k%d", k)
				sim.Go(name, func() {
					if !RaceMode {
						gname[verifsim.GoroutineID()] = k
					}
					for _, r := range recs[k] {
						verifsim.Yield(name)
						cur[k] = r
						r.call = sim.Stamp()
						switch r.in.op {
						case "add":
							r.out.added = cache.Add(r.in.ev)
						case "find":
							for _, e := range cache.Find(r.in.filters) {
								r.out.ids = append(r.out.ids, e.ID)
							}
						case "len":
							r.out.n = cache.Len()
						}
						r.ret = sim.Stamp()
						r.done = true
						cur[k] = nil
					}
				})
			}
			if s := sim.Drive(); s != simrt.Quiescent {
				sim.Violate("C15", "deadlock", nil, "scheduler status %d: %v", s, sim.S.ParkedNames())
				return
			}
		} else {
			var cls []*simrt.Client
			for k, ops := range c.Clients {
				var script []simrt.Op
				for i, op := range ops {
					switch op.Op {
					case "add":
						script = append(script, simrt.Op{Kind: "send", Msg: &simrt.Msg{T: "EVENT", EvObj: evs[op.Ev]}})
					case "find":
						script = append(script, simrt.Op{Kind: "send", Msg: &simrt.Msg{T: "REQ", Sub: fmt.Sprintf("s%d", i), Filters: op.Filters}})
					}
					script = append(script, simrt.Op{Kind: "await", N: i + 1})
				}
				cl := sim.NewClient(context.Background(), fmt.Sprintf("c%d", k), script)
				cl.IsReply = func(m mocrelay.ServerMsg) bool { _, ev := m.(*mocrelay.ServerEventMsg); return !ev }
				cls = append(cls, cl)
			}
			sessClients = cls
			// cur[k] follows the client's progress: op i is in progress from its
			// send until its reply
			for k, cl := range cls {
				k, cl := k, cl
				cl.OnSend = func(i int) { cur[k] = recs[k][i/2] }
				cl.Serve(h)
			}
			if s := sim.Drive(); s != simrt.Quiescent {
				sim.Violate("C15", "deadlock", nil, "scheduler status %d: %v", s, sim.S.ParkedNames())
				return
			}
			for k, cl := range cls {
				ri := 0
				var pend []string
				for _, g := range cl.Got {
					if ri >= len(recs[k]) {
						sim.Violate("C16", "unsolicited-reply", nil, "session %s: %s", cl.Name, simrt.DescribeServer(g.Msg))
						break
					}
					r := recs[k][ri]
					switch m := g.Msg.(type) {
					case *mocrelay.ServerEventMsg:
						pend = append(pend, m.Event.ID)
					case *mocrelay.ServerOKMsg:
						if r.in.op != "add" || m.EventID != r.in.ev.ID {
							sim.Violate("C16", "reply-order", nil, "session %s: op %d (%s) answered by %s", cl.Name, ri, r.in.op, simrt.DescribeServer(g.Msg))
						}
						r.out.added, r.ret, r.done = m.Accepted, g.Stamp, true
						ri++
					case *mocrelay.ServerEOSEMsg:
						if r.in.op != "find" {
							sim.Violate("C16", "reply-order", nil, "session %s: op %d (%s) answered by %s", cl.Name, ri, r.in.op, simrt.DescribeServer(g.Msg))
						}
						r.out.ids, r.ret, r.done = pend, g.Stamp, true
						pend = nil
						ri++
					}
				}
				for i, s := range cl.Sent {
					if i < len(recs[k]) {
						recs[k][i].call = s.Invoke
					}
				}
			}
		}
		// ---- invariants on every query result
		var ops []porcupine.Operation
		nAdd, nFind := 0, 0
		for k := range recs {
			for _, r := range recs[k] {
				if !r.done {
					sim.Violate("C15", "operation-did-not-return", nil, "client %d op %d (%s) never returned", k, r.idx, r.in.op)
					return
				}
				if r.in.op == "find" {
					nFind++
					var res []*mocrelay.Event
					for _, id := range r.out.ids {
						if e := model.by[id]; e != nil {
							res = append(res, e)
						}
					}
					for _, f := range checkListing(res, c.Cap, -1) {
						if f.Class == "listing-order" {
							continue
						}
						sim.Violate("C15", "query-invariant-"+f.Class, nil, "client %d op %d: %s", k, r.idx, f.Msg)
					}
					for _, d := range res {
						for _, x := range res {
							if delRefs(d, x) == refStrict {
								sim.Violate("C15", "query-shows-deleted-with-request", nil, "client %d op %d lists %s together with the retained deletion request %s of its author", k, r.idx, ref.Short(x.ID), ref.Short(d.ID))
							}
						}
					}
				} else if r.in.op == "add" {
					nAdd++
				}
				ops = append(ops, porcupine.Operation{ClientId: k, Input: r.in, Output: r.out, Call: r.call, Return: r.ret})
			}
		}
		// ---- witness: the lock acquisition order, replayed sequentially
		witnessOK := len(lockOrder) == len(ops)
		if witnessOK {
			seen := map[*c15Rec]bool{}
			state := ""
			for _, r := range lockOrder {
				if seen[r] {
					witnessOK = false
					break
				}
				seen[r] = true
				ok, ns := model.step(state, r.in, r.out)
				if !ok {
					witnessOK = false
					break
				}
				state = ns
			}
		}
		if witnessOK {
			st.Probe("witness_ok")
		} else {
			st.Probe("witness_failed_porcupine_decides")
			pm := porcupine.Model{
				Init: func() interface{} { return "" },
				Step: func(s, in, out interface{}) (bool, interface{}) {
					ok, ns := model.step(s.(string), in.(c15In), out.(c15Out))
					return ok, ns
				},
			}
			switch porcupine.CheckOperationsTimeout(pm, ops, 20*time.Second) {
			case porcupine.Illegal:
				var hs []string
				for _, o := range ops {
					in, out := o.Input.(c15In), o.Output.(c15Out)
					d := in.op
					switch in.op {
					case "add":
						d += fmt.Sprintf("(%s)=%v", ref.Short(in.ev.ID), out.added)
					case "find":
						fj, _ := json.Marshal(in.filters)
						d += fmt.Sprintf("(%s)=%v", fj, shortList(out.ids))
					case "len":
						d += fmt.Sprintf("()=%d", out.n)
					}
					hs = append(hs, fmt.Sprintf("c%d[%d,%d] %s", o.ClientId, o.Call, o.Return, d))
				}
				sim.Violate("C15", "not-linearizable", nil, "no sequential order of the operations consistent with real time explains the results: %s", strings.Join(hs, "; "))
			case porcupine.Unknown:
				st.Probe("porcupine_unknown")
			}
		}
		hh := fnv.New64a()
		for _, r := range lockOrder {
			fmt.Fprintf(hh, "%d.%d|", r.client, r.idx)
		}
		st.State(hh.Sum64())
		st.NonTrivial = nAdd >= 2 && nFind >= 1 && sim.S.Switches > 2*len(c.Clients)
		st.Completed = true
	})
}

func shortList(ids []string) []string {
	out := make([]string, len(ids))
	for i, s := range ids {
		out[i] = ref.Short(s)
	}
	return out
}
