package props

import (
	"bytes"
	"context"
	"encoding/json"
	"fmt"
	"hash/fnv"
	"os"
	"strings"
	"testing"
	"time"

	"github.com/high-moctane/mocrelay"
	mocsqlite "github.com/high-moctane/mocrelay/handler/sqlite"
	"pgregory.net/rapid"
	"verif.local/sim/ref"
	"verif.local/sim/simrt"
)

// C16: storage-backed handlers (cache, SQLite) answer every client message
// sequence completely and in request order, under pipelining, stalled readers
// and arbitrary schedules; dumping a cache and restoring it is lossless.

type c16Op struct {
	simrt.Op
	Ev int `json:"evidx,omitempty"` // for EVENT: index into Events (resolved objects)
}

type C16Case struct {
	Backend   string               `json:"backend"` // cache | sqlite
	Cap       int                  `json:"cap"`
	Events    []cacheEv            `json:"events"`
	Prefill   []int                `json:"prefill"`
	Sessions  [][]c16Op            `json:"sessions"`
	Probes    [][]simrt.FilterSpec `json:"probes"` // dump/restore probes
	BulkNum   int                  `json:"bulk_num,omitempty"`
	FailQuery int                  `json:"fail_query,omitempty"` // sqlite: the k-th query of the sessions fails with an I/O error (0: none)
	Seed      uint32               `json:"xxhash_seed,omitempty"`
	Sched     simrt.Schedule       `json:"sched"`
}

type c16Engine struct{}

func init() { register("storage-replies", c16Engine{}, "C16") }

func (c16Engine) Decode(b []byte) (any, error) {
	var c C16Case
	err := json.Unmarshal(b, &c)
	return &c, err
}

func (c16Engine) Gen(t *rapid.T, tier string) any {
	c := &C16Case{}
	c.Backend = rapid.SampledFrom([]string{"cache", "cache", "cache", "sqlite"}).Draw(t, "backend")
	c.Cap = rapid.SampledFrom([]int{1, 2, 3, 5, 8}).Draw(t, "cap")
	cc := &CacheCase{}
	nev := rapid.IntRange(2, 8).Draw(t, "nev")
	genCacheEvents(t, cc, nev)
	perm := rapid.Permutation(seq(nev)).Draw(t, "created_at")
	for i := range cc.Events {
		cc.Events[i].CreatedAt = int64(perm[i] + 1) // unique: the sequential model is a function
	}
	// strict references only (see C15)
	for iter := 0; iter < 4; iter++ {
		evs := cc.build()
		changed := false
		for i := range cc.Events {
			if cc.Events[i].Kind != 5 {
				continue
			}
			mayAny := false
			for j := range evs {
				if delRefs(evs[i], evs[j]) == refMay {
					mayAny = true
				}
			}
			var keep []cacheRef
			for _, r := range cc.Events[i].Refs {
				if r.Tag == "a" && (mayAny || (!r.Bogus && ref.ClassOf(evs[r.Target].Kind) != ref.Addressable)) {
					changed = true
					continue
				}
				keep = append(keep, r)
			}
			cc.Events[i].Refs = keep
		}
		if !changed {
			break
		}
	}
	c.Events = cc.Events
	evs := cc.build()
	for i, n := 0, rapid.IntRange(0, 4).Draw(t, "nprefill"); i < n; i++ {
		c.Prefill = append(c.Prefill, rapid.IntRange(0, nev-1).Draw(t, "pev"))
	}
	ns := 1
	if rapid.IntRange(0, 3).Draw(t, "multi") == 0 {
		ns = 2
	}
	maxOps := 8
	if tier == "thorough" {
		maxOps = 14
	}
	for s := 0; s < ns; s++ {
		var ops []c16Op
		for i, n := 0, rapid.IntRange(1, maxOps).Draw(t, "nops"); i < n; i++ {
			switch k := rapid.IntRange(0, 13).Draw(t, "opk"); {
			case k <= 4:
				ops = append(ops, c16Op{Op: simrt.Op{Kind: "send", Msg: &simrt.Msg{T: "EVENT"}}, Ev: rapid.IntRange(0, nev-1).Draw(t, "ev")})
			case k <= 7:
				fs := []simrt.FilterSpec{{}}
				if rapid.IntRange(0, 1).Draw(t, "sel") == 0 {
					fs = genQueries(t, evs, 1)[0]
					if len(fs) == 0 {
						fs = []simrt.FilterSpec{{}}
					}
				}
				if rapid.IntRange(0, 9).Draw(t, "badid") == 0 {
					// a filter no stored event can match, spelled with an id that is
					// not hex (validation is the relay's job): the answer is a bare EOSE
					// whichever way the store gets there, and the session goes on
					fs = []simrt.FilterSpec{{IDs: []string{"not-a-hex-id"}}}
				}
				ops = append(ops, c16Op{Op: simrt.Op{Kind: "send", Msg: &simrt.Msg{T: "REQ", Sub: c16Sub(t, "r", i), Filters: fs}}})
			case k == 8:
				ops = append(ops, c16Op{Op: simrt.Op{Kind: "send", Msg: &simrt.Msg{T: "COUNT", Sub: c16Sub(t, "c", i), Filters: []simrt.FilterSpec{{}}}}})
			case k == 9:
				ops = append(ops, c16Op{Op: simrt.Op{Kind: "send", Msg: &simrt.Msg{T: "CLOSE", Sub: fmt.Sprintf("r%d", i)}}})
			case k == 10:
				ops = append(ops, c16Op{Op: simrt.Op{Kind: "send", Msg: &simrt.Msg{T: "AUTH"}}, Ev: 0})
			case k == 11:
				ops = append(ops, c16Op{Op: simrt.Op{Kind: "pause"}})
			case k == 12:
				ops = append(ops, c16Op{Op: simrt.Op{Kind: "resume"}})
			default:
				ops = append(ops, c16Op{Op: simrt.Op{Kind: "await", N: 1}}) // N fixed up at execution
			}
		}
		c.Sessions = append(c.Sessions, ops)
	}
	c.Probes = genQueries(t, evs, 3)
	c.BulkNum = rapid.IntRange(1, 3).Draw(t, "bulk")
	if c.Backend == "sqlite" && rapid.IntRange(0, 2).Draw(t, "failquery") == 0 {
		c.FailQuery = rapid.IntRange(1, 4).Draw(t, "failquery.k")
	}
	c.Seed = rapid.Uint32().Draw(t, "xxseed")
	c.Sched = GenSchedule(t, 1500)
	return c
}

func (c16Engine) Exec(t *testing.T, cc any) *simrt.Result {
	c := cc.(*C16Case)
	return simrt.Run(t, c.Sched, 600000, func(sim *simrt.Sim) {
		st := &sim.Res.Stats
		evs := (&CacheCase{Events: c.Events}).build()
		model := &c15Model{cap: c.Cap, evs: evs, by: idsOf(evs)}
		var h mocrelay.Handler
		var cacheH mocrelay.CacheHandler
		var state []*mocrelay.Event // model state of the cache
		switch c.Backend {
		case "cache":
			cacheH = mocrelay.NewCacheHandler(c.Cap)
			h = cacheH
			for _, i := range c.Prefill {
				cacheOf(cacheH).Add(evs[i])
				_, _, state = model.apply(state, evs[i])
			}
		case "sqlite":
			dir, err := os.MkdirTemp("", "verif-c16-")
			if err != nil {
				sim.Res.Harness = err.Error()
				return
			}
			defer os.RemoveAll(dir)
			d, err := openSQL(sim, dir, "WAL", false, 2, c.Seed)
			if err != nil {
				sim.Res.Harness = "open: " + err.Error()
				return
			}
			defer d.db.Close()
			var pre []*mocrelay.Event
			for _, i := range c.Prefill {
				pre = append(pre, evs[i])
			}
			if len(pre) > 0 {
				if err := d.insert(context.Background(), pre); err != nil {
					sim.Res.Harness = "prefill: " + err.Error()
					return
				}
			}
			hctx, hcancel := context.WithCancel(context.Background())
			sim.Cleanup(hcancel)
			sh, err := mocsqlite.NewSQLiteHandler(hctx, d.db, &mocsqlite.SQLiteHandlerOption{EventBulkInsertNum: c.BulkNum, EventBulkInsertDur: 10 * time.Second, MaxLimit: mocsqlite.NoLimit})
			if err != nil {
				sim.Res.Harness = "NewSQLiteHandler: " + err.Error()
				return
			}
			h = sh
			if c.FailQuery > 0 {
				// disk trouble while answering a REQ: the reply must still be complete
				// in form (events, then exactly one EOSE)
				nq := 0
				plan := &simrt.FaultPlan{Hook: func(n int, what string) error {
					if what == "query" {
						nq++
						if nq == c.FailQuery {
							st.Fault("drv-err-query")
							return simrt.ErrInjected
						}
					}
					return nil
				}}
				simrt.SetFaultPlan(plan)
				plan.Arm()
				defer simrt.SetFaultPlan(nil)
			}
		}
		var cls []*simrt.Client
		for si, ops := range c.Sessions {
			var script []simrt.Op
			replies := 0
			for _, o := range ops {
				op := o.Op
				if op.Msg != nil {
					m := *op.Msg
					switch m.T {
					case "EVENT":
						m.EvObj = evs[o.Ev]
						replies++
					case "AUTH":
						m.Ev = &simrt.EvSpec{Kind: 22242, CreatedAt: 1}
					case "REQ", "COUNT":
						replies++
					}
					op.Msg = &m
				}
				if op.Kind == "await" {
					if replies == 0 {
						continue
					}
					op.N = replies
				}
				script = append(script, op)
			}
			k := sim.NewClient(context.Background(), fmt.Sprintf("s%d", si), script)
			k.IsReply = func(m mocrelay.ServerMsg) bool { _, ev := m.(*mocrelay.ServerEventMsg); return !ev }
			cls = append(cls, k)
		}
		for _, k := range cls {
			k.Serve(h)
		}
		for i := 0; i < 64; i++ {
			if s := sim.Drive(); s != simrt.Quiescent {
				sim.Violate("C16", "deadlock", nil, "scheduler status %d: %v", s, sim.S.ParkedNames())
				return
			}
			done := true
			for _, k := range cls {
				if k.Paused() {
					done = false
					st.Fault("reader-stall")
					k.Resume()
				}
			}
			if done {
				break
			}
		}
		// ---- progress: at this quiescent point, with every reader active, each
		// session has taken all of its client's messages and answered what is
		// awaited (a handler that stops reading its input starves the client)
		for _, k := range cls {
			if !k.ScriptDone.Load() {
				sim.Violate("C16", "session-stalled", map[string]string{"backend": c.Backend}, "session %s: at quiescence (no reader stalled) the client is still waiting to hand over or get answered message #%d of %d; it has %d replies", k.Name, len(k.Sent), len(k.Script), len(k.Got))
			}
		}
		// ---- reply grammar per session, in request order
		single := len(cls) == 1 && c.Backend == "cache"
		nReq, nEv := 0, 0
		for _, k := range cls {
			gi := 0
			got := k.Got
			next := func() (mocrelay.ServerMsg, bool) {
				if gi < len(got) {
					gi++
					return got[gi-1].Msg, true
				}
				return nil, false
			}
			for _, s := range k.Sent {
				if s.Accepted == 0 {
					continue
				}
				desc := fmt.Sprintf("session %s message #%d %s", k.Name, s.Idx, s.Msg.ClientMsgLabel())
				switch m := s.Msg.(type) {
				case *mocrelay.ClientEventMsg:
					nEv++
					r, ok := next()
					okm, isOK := r.(*mocrelay.ServerOKMsg)
					if !ok || !isOK || okm.EventID != m.Event.ID {
						sim.Violate("C16", "event-reply", map[string]string{"backend": c.Backend}, "%s: expected exactly one OK with its id next, got %s", desc, simrt.DescribeServer(r))
						continue
					}
					if c.Backend == "sqlite" {
						if !okm.Accepted {
							sim.Violate("C16", "sqlite-rejects-event", nil, "%s: SQLite handler answered %s", desc, simrt.DescribeServer(r))
						}
						continue
					}
					if single {
						wasStored := idsOf(state)[m.Event.ID] != nil
						added, free, ns := model.apply(state, m.Event)
						state = ns
						if !free && added != okm.Accepted {
							sim.Violate("C16", "cache-verdict", nil, "%s: OK says accepted=%v, the event is newly stored=%v", desc, okm.Accepted, added)
						}
						if !okm.Accepted && wasStored && !strings.HasPrefix(okm.Message(), "duplicate:") {
							sim.Violate("C16", "duplicate-prefix-missing", nil, "%s: that very event is already stored but the rejection reads %q", desc, okm.Message())
						}
					}
				case *mocrelay.ClientReqMsg:
					nReq++
					var ids []string
					for {
						r, ok := next()
						if !ok {
							sim.Violate("C16", "req-no-eose", map[string]string{"backend": c.Backend}, "%s: no EOSE", desc)
							break
						}
						if e, isEv := r.(*mocrelay.ServerEventMsg); isEv {
							if e.SubscriptionID != m.SubscriptionID {
								sim.Violate("C16", "req-wrong-label", nil, "%s: event labelled %q", desc, e.SubscriptionID)
							}
							if !ref.MatchAny(e.Event, m.ReqFilters) {
								sim.Violate("C16", "req-nonmatching-event", map[string]string{"backend": c.Backend}, "%s: returned event %s does not match", desc, ref.Short(e.Event.ID))
							}
							ids = append(ids, e.Event.ID)
							continue
						}
						if e, isE := r.(*mocrelay.ServerEOSEMsg); isE && e.SubscriptionID == m.SubscriptionID {
							break
						}
						sim.Violate("C16", "req-reply-interleaved", map[string]string{"backend": c.Backend}, "%s: expected events then EOSE, got %s", desc, simrt.DescribeServer(r))
						break
					}
					if single {
						want := model.find(state, m.ReqFilters)
						if strings.Join(want, ",") != strings.Join(ids, ",") {
							sim.Violate("C16", "req-answer", nil, "%s: stored matches are %v, got %v", desc, shortList(want), shortList(ids))
						}
					}
				case *mocrelay.ClientCountMsg:
					r, ok := next()
					if cm, is := r.(*mocrelay.ServerCountMsg); !ok || !is || cm.SubscriptionID != m.SubscriptionID {
						sim.Violate("C16", "count-reply", map[string]string{"backend": c.Backend}, "%s: expected one COUNT reply next, got %s", desc, simrt.DescribeServer(r))
					}
				}
			}
			if gi < len(got) {
				sim.Violate("C16", "extra-reply", map[string]string{"backend": c.Backend}, "session %s: %d message(s) beyond the replies to its requests, first %s", k.Name, len(got)-gi, simrt.DescribeServer(got[gi].Msg))
			}
		}
		// ---- dump / restore
		if c.Backend == "cache" {
			st.Fault("dump-restore")
			var buf bytes.Buffer
			if err := cacheH.Dump(&buf); err != nil {
				sim.Violate("C16", "dump-error", nil, "Dump: %v", err)
			} else {
				h2 := mocrelay.NewCacheHandler(c.Cap)
				if err := h2.Restore(bytes.NewReader(buf.Bytes())); err != nil {
					sim.Violate("C16", "restore-error", nil, "Restore: %v", err)
				} else {
					for _, fs := range append([][]simrt.FilterSpec{{{}}}, c.Probes...) {
						a1 := cacheOf(cacheH).Find(simrt.Filters(fs))
						a2 := cacheOf(h2).Find(simrt.Filters(fs))
						if d := diffAnswers(a1, a2); d != "" {
							fj, _ := json.Marshal(fs)
							sim.Violate("C16", "dump-restore-differs", nil, "after dump+restore query %s differs: %s", fj, d)
						}
					}
				}
			}
		}
		hh := fnv.New64a()
		fmt.Fprintf(hh, "%s|%d|%d|%d", c.Backend, nReq, nEv, len(cls))
		st.State(hh.Sum64())
		st.NonTrivial = nReq+nEv >= 2
		st.Completed = true
		for _, k := range cls {
			k.Cancel()
		}
		sim.Drive()
		if c.Backend == "sqlite" {
			sim.Advance(4 * time.Second)
		}
	})
}

// c16Sub draws a subscription id: usually a fresh name, now and then the empty
// string or an odd one (ids are arbitrary strings).
func c16Sub(t *rapid.T, prefix string, i int) string {
	switch rapid.IntRange(0, 9).Draw(t, "oddsub") {
	case 0:
		return ""
	case 1:
		return "\u0001 odd\"sub\\"
	}
	return fmt.Sprintf("%s%d", prefix, i)
}
