package props

import (
	"encoding/hex"
	"crypto/sha256"
	"io"
	"math"
	"bytes"
	"context"
	"encoding/json"
	"fmt"
	"hash/fnv"
	"reflect"
	"strings"
	"testing"

	"github.com/high-moctane/mocrelay"
	"pgregory.net/rapid"
	"verif.local/sim/ref"
	"verif.local/sim/simrt"
)

// Engine "cache": EventCache / CacheHandler driven through an insertion history
// with queries after every insertion; oracles for C03 (answers), C04
// (retention) and C05 (deletion requests, author isolation).

type cacheRef struct {
	Tag    string `json:"tag"`    // "e" | "a"
	Target int    `json:"target"` // index into Events (may point to a later event)
	Extra  bool   `json:"extra,omitempty"`
	Bogus  bool   `json:"bogus,omitempty"` // reference to something that never exists
}

type cacheEv struct {
	simrt.EvSpec
	D2    string `json:"d2,omitempty"` // value of a second d tag appended after all other tags
	HasD2 bool   `json:"has_d2,omitempty"`
	// SelfRef > 0 (deletion requests): the request names itself in an e tag at
	// that position (1-based) among its tags. An id that appears in the hashed
	// tags cannot be the hash: such an event has a made-up id (stores do not
	// verify ids; the relay in front of them does).
	SelfRef int `json:"self_ref,omitempty"`
	// ShortID: the event carries a made-up id of another LENGTH (a prefix of its
	// hash): stores order and index ids as opaque strings.
	ShortID bool `json:"short_id,omitempty"`
	Refs []cacheRef `json:"refs,omitempty"` // for kind 5 (and as ordinary e/a tags on other kinds)
}

type cacheOp struct {
	Op      string               `json:"op"` // add | dumprestore
	Ev      int                  `json:"ev,omitempty"`
	Via     string               `json:"via,omitempty"` // "" direct | "session"
	Queries [][]simrt.FilterSpec `json:"queries,omitempty"`
}

type CacheCase struct {
	Cap    int       `json:"cap"`
	Events []cacheEv `json:"events"`
	Ops    []cacheOp `json:"ops"`
	// generator restrictions that keep clear of the recorded known findings
	AvoidEphemeral bool `json:"avoid_ephemeral,omitempty"`
	AvoidNoD       bool `json:"avoid_no_d,omitempty"`
	AvoidIDRefAddr bool `json:"avoid_idref_addr,omitempty"`
	SelfRefs       bool `json:"self_refs,omitempty"` // deletion requests may name themselves (in-memory store engines only)
}

type cacheEngine struct{}

func init() { register("cache", cacheEngine{}, "C03", "C04", "C05") }

func (cacheEngine) Decode(b []byte) (any, error) {
	var c CacheCase
	err := json.Unmarshal(b, &c)
	return &c, err
}

var cacheKinds = []int64{1, 1, 5, 5, 0, 3, 10002, 30000, 30000, 30001, 20001, 7}
var cacheEdgeKinds = []int64{9999, 10000, 10000, 19999, 19999, 20000, 29999, 30000, 39999, 39999, 40000, 65535, 65536, 100000}
var cacheTagLetters = []string{"z", "Z", "a", "A", "E", "P", "K", "k", "r", "g", "I"}
var cacheDs = []string{"", "a", "b:c"}

// build resolves references into tags; events are pure functions of the case.
func (c *CacheCase) build() []*mocrelay.Event {
	evs := make([]*mocrelay.Event, len(c.Events))
	// references may point forward, ids depend on tags: resolve in passes in
	// index order of the TARGET graph (the generator only lets event i refer to
	// events whose own refs are already resolved: deletion requests refer to
	// non-deletion events or to earlier deletion requests).
	var resolve func(i int, depth int) *mocrelay.Event
	resolve = func(i int, depth int) *mocrelay.Event {
		if evs[i] != nil {
			return evs[i]
		}
		sp := c.Events[i]
		tags := append([][]string{}, sp.Tags...)
		for ri, r := range sp.Refs {
			var val string
			switch {
			case r.Bogus && r.Tag == "e":
				// a reference that names nothing: a well-formed id of no event, or a
				// value that is no id at all (other references of the same request
				// must work all the same)
				val = []string{fmt.Sprintf("%064x", 0xdead0000+i), "note1qqqsyqcyq5rqwzqfpg9scrgwpugpzysn", "abc", fmt.Sprintf("%064X", 0xdead0000+i), ""}[(i+ri)%5]
			case r.Bogus:
				val = []string{fmt.Sprintf("30000:%s:nonexistent", ref.Authors[3].Pubkey), "not-an-address", "30000:zz:x", "30000", ""}[(i+ri)%5]
			case depth > 8 || r.Target < 0 || r.Target >= len(c.Events) || r.Target == i:
				continue
			case r.Tag == "e":
				val = resolve(r.Target, depth+1).ID
			default:
				t := resolve(r.Target, depth+1)
				switch ref.ClassOf(t.Kind) {
				case ref.Addressable:
					val = ref.ATagValue(t)
				case ref.Replaceable:
					val = fmt.Sprintf("%d:%s:", t.Kind, t.Pubkey)
				default:
					continue
				}
			}
			tag := []string{r.Tag, val}
			if r.Extra {
				tag = append(tag, "wss://relay.example")
			}
			tags = append(tags, tag)
		}
		if sp.HasD2 {
			tags = append(tags, []string{"d", sp.D2})
		}
		s := sp.EvSpec
		if sp.SelfRef > 0 {
			h := sha256.Sum256([]byte(fmt.Sprintf("verif-selfref-%d-%s", i, sp.Content)))
			own := hex.EncodeToString(h[:])
			pos := min(sp.SelfRef-1, len(tags))
			tags = append(tags[:pos:pos], append([][]string{{"e", own}}, tags[pos:]...)...)
			s.Tags = tags
			ev := *s.Event()
			ev.ID = own
			evs[i] = &ev
			return evs[i]
		}
		s.Tags = tags
		evs[i] = s.Event()
		if sp.ShortID {
			ev := *evs[i]
			ev.ID = ev.ID[:40]
			evs[i] = &ev
		}
		return evs[i]
	}
	for i := range c.Events {
		resolve(i, 0)
	}
	return evs
}

func genFilter(t *rapid.T, evs []*mocrelay.Event) simrt.FilterSpec {
	var f simrt.FilterSpec
	pick := func() *mocrelay.Event { return evs[rapid.IntRange(0, len(evs)-1).Draw(t, "pick")] }
	i64 := func(v int) *int64 { x := int64(v); return &x }
	if rapid.IntRange(0, 3).Draw(t, "f.ids") == 0 {
		n := rapid.IntRange(0, 3).Draw(t, "nids")
		if n == 0 {
			f.EmptyIDs = true
		}
		for i := 0; i < n; i++ {
			if rapid.IntRange(0, 5).Draw(t, "unk") == 0 {
				f.IDs = append(f.IDs, fmt.Sprintf("%064x", 0xabc))
			} else {
				f.IDs = append(f.IDs, pick().ID)
			}
		}
	}
	if rapid.IntRange(0, 2).Draw(t, "f.authors") == 0 {
		n := rapid.IntRange(0, 2).Draw(t, "nauth")
		if n == 0 {
			f.EmptyAuthors = true
		}
		for i := 0; i < n; i++ {
			f.Authors = append(f.Authors, ref.Authors[rapid.IntRange(0, 3).Draw(t, "author")].Pubkey)
		}
	}
	if rapid.IntRange(0, 2).Draw(t, "f.kinds") == 0 {
		n := rapid.IntRange(0, 3).Draw(t, "nkinds")
		if n == 0 {
			f.EmptyKinds = true
		}
		for i := 0; i < n; i++ {
			f.Kinds = append(f.Kinds, rapid.SampledFrom(cacheKinds).Draw(t, "kind"))
			if rapid.IntRange(0, 7).Draw(t, "edgek") == 0 {
				f.Kinds[len(f.Kinds)-1] = rapid.SampledFrom(cacheEdgeKinds).Draw(t, "ekind")
			}
		}
	}
	if rapid.IntRange(0, 2).Draw(t, "f.tags") == 0 {
		f.Tags = map[string][]string{}
		nt := rapid.IntRange(1, 2).Draw(t, "ntags")
		for i := 0; i < nt; i++ {
			e := pick()
			if len(e.Tags) == 0 || rapid.IntRange(0, 4).Draw(t, "randtag") == 0 {
				name := rapid.SampledFrom(append([]string{"t", "e", "p", "d", "a", "T"}, cacheTagLetters...)).Draw(t, "tagname")
				f.Tags[name] = append(f.Tags[name], rapid.SampledFrom([]string{"x", "y", "", "a"}).Draw(t, "tagval"))
				continue
			}
			tg := e.Tags[rapid.IntRange(0, len(e.Tags)-1).Draw(t, "tagidx")]
			if len(tg[0]) != 1 || len(tg) < 2 {
				continue
			}
			f.Tags[tg[0]] = append(f.Tags[tg[0]], tg[1])
		}
		if rapid.IntRange(0, 7).Draw(t, "emptytag") == 0 {
			// a tag condition with an empty value list is a condition nothing satisfies
			name := rapid.SampledFrom([]string{"e", "t", "z"}).Draw(t, "emptytagname")
			if _, has := f.Tags[name]; !has {
				f.Tags[name] = []string{}
			}
		}
		if len(f.Tags) == 0 {
			f.Tags = nil
		}
	}
	if rapid.IntRange(0, 3).Draw(t, "f.since") == 0 {
		f.Since = i64(rapid.IntRange(0, 7).Draw(t, "since"))
		if rapid.IntRange(0, 9).Draw(t, "xsince") == 0 {
			f.Since = i64(math.MaxInt64)
		}
	}
	if rapid.IntRange(0, 3).Draw(t, "f.until") == 0 {
		f.Until = i64(rapid.IntRange(0, 7).Draw(t, "until"))
		if rapid.IntRange(0, 9).Draw(t, "xuntil") == 0 {
			f.Until = i64(math.MaxInt64)
		}
	}
	if rapid.IntRange(0, 1).Draw(t, "f.limit") == 0 {
		f.Limit = i64(rapid.SampledFrom([]int{0, 1, 1, 2, 3, 100, 1 << 31, math.MaxInt64}).Draw(t, "limit"))
	}
	return f
}

func genQueries(t *rapid.T, evs []*mocrelay.Event, k int) [][]simrt.FilterSpec {
	var out [][]simrt.FilterSpec
	for i := 0; i < k; i++ {
		n := rapid.SampledFrom([]int{1, 1, 1, 2, 2, 3, 0}).Draw(t, "nfilters")
		fs := []simrt.FilterSpec{}
		for j := 0; j < n; j++ {
			fs = append(fs, genFilter(t, evs))
		}
		out = append(out, fs)
	}
	return out
}

func genCacheEvents(t *rapid.T, c *CacheCase, nev int) {
	for i := 0; i < nev; i++ {
		var e cacheEv
		e.Author = rapid.IntRange(0, 2).Draw(t, "author")
		e.Kind = rapid.SampledFrom(cacheKinds).Draw(t, "kind")
		if rapid.IntRange(0, 7).Draw(t, "edgekind") == 0 {
			// the first and last kind of every class range
			e.Kind = rapid.SampledFrom(cacheEdgeKinds).Draw(t, "ekind")
		}
		if c.AvoidEphemeral && ref.ClassOf(e.Kind) == ref.Ephemeral {
			e.Kind = 1
		}
		e.CreatedAt = int64(rapid.IntRange(0, 6).Draw(t, "created_at"))
		if rapid.IntRange(0, 11).Draw(t, "xts") == 0 {
			// the ends of the int64 range and a time before 1970
			e.CreatedAt = rapid.SampledFrom([]int64{-1, -5, math.MinInt64, math.MinInt64 + 1, math.MaxInt64, math.MaxInt64 - 1}).Draw(t, "xtsv")
		}
		e.Content = fmt.Sprintf("c%d", i)
		if ref.ClassOf(e.Kind) == ref.Addressable {
			dk := rapid.IntRange(0, 5).Draw(t, "dkind")
			switch {
			case dk == 0 && !c.AvoidNoD:
				// no d tag
			case dk == 1:
				e.Tags = append(e.Tags, []string{"d"}) // d tag without value = ""
			default:
				e.Tags = append(e.Tags, []string{"d", rapid.SampledFrom(cacheDs).Draw(t, "d")})
				// a second d tag further back: the FIRST one identifies the event
				if rapid.IntRange(0, 5).Draw(t, "d2") == 0 {
					e.D2 = rapid.SampledFrom(cacheDs).Draw(t, "d2v")
					e.HasD2 = true
				}
			}
		}
		if rapid.IntRange(0, 2).Draw(t, "ttag") == 0 {
			e.Tags = append(e.Tags, []string{"t", rapid.SampledFrom([]string{"x", "y"}).Draw(t, "t")})
		}
		if rapid.IntRange(0, 4).Draw(t, "ptag") == 0 {
			e.Tags = append(e.Tags, []string{"p", ref.Authors[rapid.IntRange(0, 2).Draw(t, "p")].Pubkey, "extra"})
		}
		if rapid.IntRange(0, 5).Draw(t, "lettertag") == 0 {
			// any single letter, either case, is an indexable tag name
			e.Tags = append(e.Tags, []string{rapid.SampledFrom(cacheTagLetters).Draw(t, "letter"), rapid.SampledFrom([]string{"x", "y"}).Draw(t, "letterv")})
		}
		// a repeated (name, value) pair, not at the end: index maintenance must
		// cope with one event contributing the same index key twice
		if len(e.Tags) > 0 && rapid.IntRange(0, 3).Draw(t, "duptag") == 0 {
			src := e.Tags[rapid.IntRange(0, len(e.Tags)-1).Draw(t, "dupsrc")]
			cp := append([]string{}, src...)
			if len(cp) >= 2 && rapid.IntRange(0, 1).Draw(t, "dupextra") == 0 {
				cp = append(cp[:2:2], "other-hint")
			}
			pos := rapid.IntRange(0, len(e.Tags)).Draw(t, "duppos")
			e.Tags = append(e.Tags[:pos:pos], append([][]string{cp}, e.Tags[pos:]...)...)
		}
		nrefs := 0
		if e.Kind == 5 {
			nrefs = rapid.IntRange(1, 3).Draw(t, "nrefs")
		} else if rapid.IntRange(0, 5).Draw(t, "hasref") == 0 {
			nrefs = 1
		}
		if e.Kind == 5 && rapid.IntRange(0, 2).Draw(t, "twin") == 0 {
			// a second deletion request of the same author for the same targets
			// (and a repeated reference inside one request)
			for k := len(c.Events) - 1; k >= 0; k-- {
				if c.Events[k].Kind == 5 && len(c.Events[k].Refs) > 0 {
					e.Author = c.Events[k].Author
					if rapid.IntRange(0, 2).Draw(t, "foreigntwin") == 0 {
						// the same references from another author (must have no effect
						// and must not get in the way of the owner's request)
						e.Author = (e.Author + 1) % 3
					}
					e.Refs = append(e.Refs, c.Events[k].Refs...)
					e.Refs = append(e.Refs, c.Events[k].Refs[0])
					break
				}
			}
		}
		if c.SelfRefs && rapid.IntRange(0, 5).Draw(t, "shortid") == 0 {
			e.ShortID = true
		}
		if e.Kind == 5 && c.SelfRefs && rapid.IntRange(0, 4).Draw(t, "selfref") == 0 {
			e.SelfRef = 1 + rapid.IntRange(0, 3).Draw(t, "selfpos")
		}
		for j := 0; j < nrefs; j++ {
			r := cacheRef{Tag: rapid.SampledFrom([]string{"e", "e", "a"}).Draw(t, "reftag")}
			r.Extra = rapid.IntRange(0, 4).Draw(t, "extra") == 0
			if rapid.IntRange(0, 9).Draw(t, "bogus") == 0 {
				r.Bogus = true
			} else {
				// deletion requests may refer to any non-deletion event (earlier or
				// later) and to EARLIER deletion requests (keeps resolution finite)
				r.Target = rapid.IntRange(0, nev-1).Draw(t, "target")
				if e.Kind == 5 && j == 0 && nrefs > 1 && rapid.IntRange(0, 3).Draw(t, "delofdel") == 0 {
					// a request that deletes an earlier request and, further back in
					// its tags, something else
					for k := len(c.Events) - 1; k >= 0; k-- {
						if c.Events[k].Kind == 5 {
							r.Target = k
							break
						}
					}
				}
			}
			e.Refs = append(e.Refs, r)
		}
		c.Events = append(c.Events, e)
	}
	// break forward references between deletion requests / referencing events
	for i := range c.Events {
		var keep []cacheRef
		for _, r := range c.Events[i].Refs {
			if !r.Bogus && len(c.Events[r.Target].Refs) > 0 && r.Target >= i {
				continue
			}
			if !r.Bogus && c.AvoidIDRefAddr && r.Tag == "e" && c.Events[i].Kind == 5 {
				if cl := ref.ClassOf(c.Events[r.Target].Kind); cl == ref.Replaceable || cl == ref.Addressable {
					continue
				}
			}
			keep = append(keep, r)
		}
		c.Events[i].Refs = keep
	}
}

func (cacheEngine) Gen(t *rapid.T, tier string) any {
	c := &CacheCase{}
	maxEv, maxOps := 10, 24
	if tier == "thorough" {
		maxEv, maxOps = 16, 60
	}
	c.Cap = rapid.SampledFrom([]int{1, 2, 3, 3, 4, 5, 8, 16}).Draw(t, "cap")
	avoid := rapid.IntRange(0, 9).Draw(t, "avoid") < 1
	c.AvoidEphemeral, c.AvoidNoD, c.AvoidIDRefAddr = avoid, avoid, avoid
	c.SelfRefs = rapid.IntRange(0, 2).Draw(t, "selfrefs") == 0
	nev := rapid.IntRange(2, maxEv).Draw(t, "nev")
	genCacheEvents(t, c, nev)
	evs := c.build()
	nops := rapid.IntRange(1, maxOps).Draw(t, "nops")
	for i := 0; i < nops; i++ {
		if rapid.IntRange(0, 14).Draw(t, "opk") == 0 {
			c.Ops = append(c.Ops, cacheOp{Op: "dumprestore", Queries: genQueries(t, evs, 2)})
			continue
		}
		op := cacheOp{Op: "add", Ev: rapid.IntRange(0, nev-1).Draw(t, "ev")}
		if rapid.IntRange(0, 3).Draw(t, "via") == 0 {
			op.Via = "session"
		}
		op.Queries = genQueries(t, evs, rapid.IntRange(1, 3).Draw(t, "nq"))
		c.Ops = append(c.Ops, op)
	}
	return c
}

func (cacheEngine) Exec(t *testing.T, cc any) *simrt.Result {
	c := cc.(*CacheCase)
	return simrt.Run(t, simrt.Schedule{}, 200000, func(sim *simrt.Sim) {
		evs := c.build()
		st := &sim.Res.Stats
		h := mocrelay.NewCacheHandler(c.Cap)
		cache := cacheOf(h)
		all := []*mocrelay.ReqFilter{{}}
		report := func(fs []cacheFinding, ctx string) {
			for _, f := range fs {
				sim.Violate(f.Prop, f.Class, f.Attrs, "%s: %s", ctx, f.Msg)
			}
		}
		var cl *simrt.Client
		session := func() *simrt.Client {
			if cl == nil {
				cl = sim.NewClient(context.Background(), "s0", nil)
				cl.Serve(h)
				sim.Drive()
			}
			return cl
		}
		// query through the store and, sometimes, through a REQ on a session
		query := func(fs []simrt.FilterSpec, via bool) ([]*mocrelay.Event, bool) {
			filters := simrt.Filters(fs)
			if len(filters) == 0 && !via {
				filters = []*mocrelay.ReqFilter{}
			}
			if !via {
				return cache.Find(filters), true
			}
			s := session()
			n0 := len(s.Got)
			s.Do(simrt.Op{Kind: "send", Msg: &simrt.Msg{T: "REQ", Sub: "q", Filters: fs}})
			sim.Drive()
			var ans []*mocrelay.Event
			got := s.Got[n0:]
			if len(got) == 0 {
				sim.Violate("C16", "no-reply", nil, "REQ on a cache session got no reply")
				return nil, false
			}
			for i, g := range got {
				switch m := g.Msg.(type) {
				case *mocrelay.ServerEventMsg:
					if m.SubscriptionID != "q" || i == len(got)-1 {
						sim.Violate("C16", "req-reply-grammar", nil, "REQ reply %d: %s", i, simrt.DescribeServer(g.Msg))
					}
					ans = append(ans, m.Event)
				case *mocrelay.ServerEOSEMsg:
					if i != len(got)-1 || m.SubscriptionID != "q" {
						sim.Violate("C16", "req-reply-grammar", nil, "EOSE at position %d of %d", i, len(got))
					}
				default:
					sim.Violate("C16", "req-reply-grammar", nil, "unexpected %s in REQ reply", simrt.DescribeServer(g.Msg))
				}
			}
			return ans, true
		}
		nAdded, nEvict, nRepl, nDel := 0, 0, 0, 0
		for oi, op := range c.Ops {
			switch op.Op {
			case "add":
				e := evs[op.Ev]
				R := cache.Find(all)
				var added bool
				if op.Via == "session" {
					s := session()
					n0 := len(s.Got)
					s.Do(simrt.Op{Kind: "send", Msg: &simrt.Msg{T: "EVENT", EvObj: e}})
					sim.Drive()
					got := s.Got[n0:]
					okm, isOK := (*mocrelay.ServerOKMsg)(nil), false
					if len(got) == 1 {
						okm, isOK = got[0].Msg.(*mocrelay.ServerOKMsg)
					}
					if !isOK || okm.EventID != e.ID {
						sim.Violate("C16", "event-reply-grammar", nil, "op %d: EVENT %s on a cache session answered by %d messages (want exactly one OK with its id)", oi, ref.Short(e.ID), len(got))
						continue
					}
					added = okm.Accepted
					if !added && idsOf(R)[e.ID] != nil && !strings.HasPrefix(okm.Message(), "duplicate:") {
						sim.Violate("C16", "duplicate-prefix-missing", nil, "op %d: %s is already stored but the rejection reads %q", oi, ref.Short(e.ID), okm.Message())
					}
					st.Probe("add_via_session")
				} else {
					added = cache.Add(e)
				}
				R2 := cache.Find(all)
				ctx := fmt.Sprintf("op %d add %s(kind %d, author %s, created_at %d)", oi, ref.Short(e.ID), e.Kind, ref.Short(e.Pubkey), e.CreatedAt)
				report(checkListing(R2, c.Cap, cache.Len()), ctx)
				report(checkTransition(R, e, added, R2, c.Cap), ctx)
				if added {
					nAdded++
				}
				if len(R) == c.Cap && len(R2) == c.Cap && added {
					nEvict++
				}
				if len(R2) <= len(R) && added && len(R) < c.Cap {
					nRepl++
				}
				if e.Kind == 5 && added && len(R2) <= len(R) {
					nDel++
				}
				for qi, fs := range op.Queries {
					via := (oi+qi)%5 == 0
					ans, ok := query(fs, via)
					if !ok {
						continue
					}
					if msg := ref.CheckAnswer(R2, simrt.Filters(fs), ans); msg != "" {
						path := "index"
						for _, f := range fs {
							if f.IDs == nil && !f.EmptyIDs && f.Authors == nil && !f.EmptyAuthors && f.Kinds == nil && !f.EmptyKinds && f.Tags == nil {
								path = "scan-or-mixed"
							}
						}
						fj, _ := json.Marshal(fs)
						sim.Violate("C03", "wrong-answer", map[string]string{"path": path}, "%s; query %s over %d retained events: %s", ctx, fj, len(R2), msg)
					}
				}
				hs := fnv.New64a()
				fmt.Fprintf(hs, "%d|%d|%d", len(R2), c.Cap, len(cacheAddrs(R2)))
				st.State(hs.Sum64())
			case "dumprestore":
				st.Fault("dump-restore")
				R := cache.Find(all)
				var buf bytes.Buffer
				if err := h.Dump(&buf); err != nil {
					sim.Violate("C16", "dump-error", nil, "Dump: %v", err)
					continue
				}
				h2 := mocrelay.NewCacheHandler(c.Cap)
				if err := h2.Restore(bytes.NewReader(buf.Bytes())); err != nil {
					sim.Violate("C16", "restore-error", nil, "Restore: %v", err)
					continue
				}
				c2 := cacheOf(h2)
				probes := append([][]simrt.FilterSpec{{{}}}, op.Queries...)
				for _, fs := range probes {
					a1 := cache.Find(simrt.Filters(fs))
					a2 := c2.Find(simrt.Filters(fs))
					if d := diffAnswers(a1, a2); d != "" {
						fj, _ := json.Marshal(fs)
						sim.Violate("C16", "dump-restore-differs", nil, "op %d: after dump+restore of %d events query %s differs: %s", oi, len(R), fj, d)
					}
				}
				// continue the history on the restored cache: restart of the in-memory store
				h, cache = h2, c2
				if cl != nil {
					cl.Cancel()
					cl.Stop()
					sim.Drive()
					cl = nil
				}
			}
		}
		if nEvict > 0 {
			st.Fault("capacity-eviction")
			st.Probe("eviction")
		}
		if nRepl > 0 {
			st.Probe("replacement_or_deletion")
		}
		if nDel > 0 {
			st.Probe("deletion_removed_something")
		}
		st.NonTrivial = nAdded >= 2 && (nEvict > 0 || nRepl > 0 || nDel > 0)
		st.Completed = true
	})
}

// cacheOf finds the EventCache behind a CacheHandler by reflection, so that the
// checks do not depend on the handler's unexported field names.
func cacheOf(h mocrelay.CacheHandler) *mocrelay.EventCache {
	c := cacheOfOrNil(h)
	if c == nil {
		// a handler that builds its store on first use: use it once
		h.Dump(io.Discard)
		c = cacheOfOrNil(h)
	}
	if c == nil {
		panic("verif: no *EventCache reachable from CacheHandler")
	}
	return c
}

func cacheOfOrNil(h mocrelay.CacheHandler) *mocrelay.EventCache {
	v := simrt.FindPointer(h, reflect.TypeOf((*mocrelay.EventCache)(nil)))
	if !v.IsValid() || v.IsNil() {
		return nil
	}
	return v.Interface().(*mocrelay.EventCache)
}

func cacheAddrs(R []*mocrelay.Event) map[string]bool {
	m := map[string]bool{}
	for _, e := range R {
		if a, ok := ref.Address(e); ok {
			m[a] = true
		}
	}
	return m
}

// diffAnswers compares two answers as sequences up to permutation inside equal
// created_at.
func diffAnswers(a, b []*mocrelay.Event) string {
	if len(a) != len(b) {
		return fmt.Sprintf("%d events before, %d after", len(a), len(b))
	}
	ma, mb := map[string]int64{}, map[string]int64{}
	for i := range a {
		if a[i].CreatedAt != b[i].CreatedAt {
			return fmt.Sprintf("position %d: created_at %d before, %d after", i, a[i].CreatedAt, b[i].CreatedAt)
		}
		ma[a[i].ID] = a[i].CreatedAt
		mb[b[i].ID] = b[i].CreatedAt
	}
	for id := range ma {
		if _, ok := mb[id]; !ok {
			return "event " + ref.Short(id) + " missing after restore"
		}
	}
	for i := range b {
		var orig *mocrelay.Event
		for _, e := range a {
			if e.ID == b[i].ID {
				orig = e
			}
		}
		if orig != nil && !ref.EqualEvent(orig, b[i]) {
			return "event " + ref.Short(orig.ID) + " changed by dump+restore"
		}
	}
	return ""
}
