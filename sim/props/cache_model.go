package props

import (
	"fmt"
	"sort"

	"github.com/high-moctane/mocrelay"
	"verif.local/sim/ref"
)

// Retention specification of the in-memory store (C04/C05), written from the
// property statements as a RELATION: given the retained set before an insertion,
// the offered event, the reported flag and the retained set afterwards, decide
// whether the observed transition is one the specification allows.

type cacheFinding struct {
	Prop  string
	Class string
	Attrs map[string]string
	Msg   string
}

// refKind says how a deletion request D references an event t of the same author.
type refKind int

const (
	refNone   refKind = iota
	refStrict         // the statement requires the effect
	refMay            // the statement leaves it open
)

// delRefs classifies the reference from deletion request d to target t.
func delRefs(d, t *mocrelay.Event) refKind {
	if d.Kind != 5 || d.Pubkey != t.Pubkey || d.ID == t.ID {
		return refNone
	}
	best := refNone
	for _, tag := range d.Tags {
		if len(tag) < 2 {
			continue
		}
		switch tag[0] {
		case "e":
			if tag[1] == t.ID {
				return refStrict
			}
		case "a":
			switch ref.ClassOf(t.Kind) {
			case ref.Addressable:
				if _, has := ref.DTag(t); has && tag[1] == ref.ATagValue(t) {
					// NIP-09 limits an address reference to versions up to the
					// request's created_at; the property does not say, so newer
					// versions are left open.
					// (NIP-09 limits an address reference to versions up to the
					// request's created_at; the statements of C05/C06 have no such
					// condition, and neither have the stores)
					return refStrict
				}
			case ref.Replaceable:
				// kind:pubkey: (replaceable address form) is not exercised positively
				if tag[1] == fmt.Sprintf("%d:%s:", t.Kind, t.Pubkey) || tag[1] == fmt.Sprintf("%d:%s", t.Kind, t.Pubkey) {
					best = refMay
				}
			}
		}
	}
	return best
}

func idsOf(evs []*mocrelay.Event) map[string]*mocrelay.Event {
	m := make(map[string]*mocrelay.Event, len(evs))
	for _, e := range evs {
		m[e.ID] = e
	}
	return m
}

// checkListing checks the state invariants of a listing (C04) and returns the
// findings.
func checkListing(R []*mocrelay.Event, capacity int, lenReported int) []cacheFinding {
	var out []cacheFinding
	if len(R) > capacity {
		out = append(out, cacheFinding{"C04", "capacity-exceeded", nil, fmt.Sprintf("store lists %d events with capacity %d", len(R), capacity)})
	}
	if lenReported >= 0 && lenReported != len(R) {
		out = append(out, cacheFinding{"C04", "len-mismatch", nil, fmt.Sprintf("Len()=%d but the match-everything query lists %d events", lenReported, len(R))})
	}
	seen := map[string]bool{}
	addr := map[string]*mocrelay.Event{}
	for i, e := range R {
		if seen[e.ID] {
			out = append(out, cacheFinding{"C04", "duplicate-id", nil, "id listed twice: " + ref.Short(e.ID)})
		}
		seen[e.ID] = true
		if i > 0 && R[i-1].CreatedAt < e.CreatedAt {
			out = append(out, cacheFinding{"C03", "listing-order", nil, "match-everything listing is not in non-increasing created_at order"})
		}
		if ref.ClassOf(e.Kind) == ref.Ephemeral {
			out = append(out, cacheFinding{"C04", "ephemeral-served", nil, fmt.Sprintf("ephemeral event %s (kind %d) is served from storage", ref.Short(e.ID), e.Kind)})
			continue
		}
		if a, ok := ref.Address(e); ok && ref.ClassOf(e.Kind) != ref.Regular {
			if o := addr[a]; o != nil {
				out = append(out, cacheFinding{"C04", "two-versions", nil, fmt.Sprintf("two versions of address %s retained: %s and %s", a, ref.Short(o.ID), ref.Short(e.ID))})
			}
			addr[a] = e
		}
	}
	return out
}

// checkTransition decides one observed insertion.
func checkTransition(R []*mocrelay.Event, e *mocrelay.Event, added bool, R2 []*mocrelay.Event, capacity int) []cacheFinding {
	var out []cacheFinding
	before, after := idsOf(R), idsOf(R2)
	cls := ref.ClassOf(e.Kind)

	if cls == ref.Ephemeral {
		// never stored; the reported flag is not constrained by the statements
		if after[e.ID] != nil {
			return out // reported by checkListing as ephemeral-served
		}
		if !sameSet(before, after) {
			out = append(out, cacheFinding{"C04", "ephemeral-changed-store", nil, "offering an ephemeral event changed the retained set"})
		}
		return out
	}
	addr, hasAddr := ref.Address(e)
	if !hasAddr {
		// addressable event without d tag: its address is not defined by the
		// statements. Only author isolation and the general rules apply.
		for id, x := range before {
			if after[id] == nil && x.Pubkey != e.Pubkey && !(len(R2) >= capacity && isMinCreatedAt(x, R2)) {
				out = append(out, cacheFinding{"C05", "cross-author-removal", map[string]string{"trigger": "addressable-without-d"},
					fmt.Sprintf("offering %s (author %s, kind %d, no d tag) removed %s of another author %s", ref.Short(e.ID), ref.Short(e.Pubkey), e.Kind, ref.Short(id), ref.Short(x.Pubkey))})
			}
		}
		return out
	}

	// ---- reasons to reject
	dup := before[e.ID] != nil
	strictlyOlder, tie := false, false
	var sameAddr []*mocrelay.Event
	if cls != ref.Regular {
		for _, r := range R {
			if r.ID == e.ID {
				continue
			}
			if a, ok := ref.Address(r); ok && a == addr {
				sameAddr = append(sameAddr, r)
				if r.CreatedAt > e.CreatedAt {
					strictlyOlder = true
				} else if r.CreatedAt == e.CreatedAt {
					tie = true
				}
			}
		}
	}
	suppStrict, suppMay := false, false
	crossAuthorRef := false
	for _, d := range R {
		switch delRefs(d, e) {
		case refStrict:
			suppStrict = true
		case refMay:
			suppMay = true
		}
		if d.Kind == 5 && d.Pubkey != e.Pubkey {
			for _, tag := range d.Tags {
				if len(tag) >= 2 && (tag[0] == "e" && tag[1] == e.ID || tag[0] == "a" && cls == ref.Addressable && tag[1] == ref.ATagValue(e)) {
					crossAuthorRef = true
				}
			}
		}
	}
	mustReject := dup || strictlyOlder || suppStrict
	mayReject := tie || suppMay

	if !added {
		if !sameSet(before, after) {
			out = append(out, cacheFinding{"C04", "rejected-but-changed", nil, fmt.Sprintf("insertion of %s reported not-new but the retained set changed", ref.Short(e.ID))})
		}
		if !mustReject && !mayReject {
			p, c := "C04", "unjustified-rejection"
			at := map[string]string{"kind": fmt.Sprint(e.Kind)}
			if crossAuthorRef {
				p, c = "C05", "blocked-by-other-author"
			}
			out = append(out, cacheFinding{p, c, at, fmt.Sprintf("insertion of %s (kind %d, created_at %d) reported not-new although it is neither a duplicate, nor older than a retained version, nor suppressed by a deletion request of its author", ref.Short(e.ID), e.Kind, e.CreatedAt)})
		}
		return out
	}

	// ---- added == true
	if dup {
		out = append(out, cacheFinding{"C04", "duplicate-reported-new", nil, "duplicate " + ref.Short(e.ID) + " reported as new"})
	}
	if strictlyOlder {
		out = append(out, cacheFinding{"C04", "older-version-accepted", nil, fmt.Sprintf("%s (created_at %d) accepted although a newer version of %s is retained", ref.Short(e.ID), e.CreatedAt, addr)})
	}
	if suppStrict {
		out = append(out, cacheFinding{"C05", "suppressed-event-accepted", nil, fmt.Sprintf("%s accepted although a retained deletion request of its author references it", ref.Short(e.ID))})
	}
	if dup || strictlyOlder || suppStrict {
		return out
	}
	// removals that must / may happen
	must := map[string]string{}
	may := map[string]string{}
	for _, r := range sameAddr {
		must[r.ID] = "older version of the same address"
	}
	if e.Kind == 5 {
		for _, t := range R {
			switch delRefs(e, t) {
			case refStrict:
				must[t.ID] = "target of the deletion request"
			case refMay:
				may[t.ID] = "possible target of the deletion request"
			}
		}
	}
	for id, why := range must {
		if after[id] != nil {
			p, c := "C04", "old-version-survived"
			at := map[string]string{}
			if why == "target of the deletion request" {
				p, c = "C05", "deletion-target-survived"
				at["target_class"] = []string{"regular", "replaceable", "ephemeral", "addressable"}[ref.ClassOf(before[id].Kind)]
				at["by"] = refTagOf(e, before[id])
			}
			out = append(out, cacheFinding{p, c, at, fmt.Sprintf("after accepting %s, %s (%s) is still retained", ref.Short(e.ID), ref.Short(id), why)})
		}
	}
	// what left
	var unjust []*mocrelay.Event
	for id, x := range before {
		if after[id] == nil && must[id] == "" && may[id] == "" {
			unjust = append(unjust, x)
		}
	}
	eGone := after[e.ID] == nil
	if eGone && !selfReferencing(e) {
		// (a deletion request that names itself: the statement both removes what
		// it references and keeps the request; the code, and its own unit test
		// "delete oneself", remove it. Left open here - what stays checked is that
		// once it is gone it suppresses nothing, since suppression is computed
		// from retained requests only)
		unjust = append(unjust, e)
	}
	for id := range after {
		if before[id] == nil && id != e.ID {
			out = append(out, cacheFinding{"C04", "event-from-nowhere", nil, "event " + ref.Short(id) + " appeared without being inserted"})
		}
	}
	sort.Slice(unjust, func(i, j int) bool { return unjust[i].ID < unjust[j].ID })
	// at most one of them can be a capacity eviction: it needs |R'| == capacity
	// and minimal created_at among R' ∪ {itself}
	evictedOK := false
	for _, x := range unjust {
		if !evictedOK && len(R2) == capacity && isMinCreatedAt(x, R2) {
			evictedOK = true
			continue
		}
		p, c := "C04", "unjustified-removal"
		at := map[string]string{}
		if x.Pubkey != e.Pubkey {
			p, c = "C05", "cross-author-removal"
		}
		if x == e {
			c = "accepted-but-not-stored"
			if e.Kind == 5 {
				p, c = "C05", "deletion-request-not-kept"
			}
		}
		out = append(out, cacheFinding{p, c, at, fmt.Sprintf("after accepting %s (author %s), %s (author %s, created_at %d) left the store although it is neither an older version of the same address, nor a target of a deletion request of its author, nor the oldest event at full capacity (|R'|=%d, cap=%d)",
			ref.Short(e.ID), ref.Short(e.Pubkey), ref.Short(x.ID), ref.Short(x.Pubkey), x.CreatedAt, len(R2), capacity)})
	}
	return out
}

// selfReferencing says whether a deletion request names its own id in an e tag.
func selfReferencing(e *mocrelay.Event) bool {
	if e.Kind != 5 {
		return false
	}
	for _, tag := range e.Tags {
		if len(tag) >= 2 && tag[0] == "e" && tag[1] == e.ID {
			return true
		}
	}
	return false
}

func refTagOf(d, t *mocrelay.Event) string {
	for _, tag := range d.Tags {
		if len(tag) >= 2 && tag[0] == "e" && tag[1] == t.ID {
			if len(tag) > 2 {
				return "e+"
			}
			return "e"
		}
	}
	for _, tag := range d.Tags {
		if len(tag) >= 2 && tag[0] == "a" {
			if len(tag) > 2 {
				return "a+"
			}
			return "a"
		}
	}
	return "?"
}

func isMinCreatedAt(x *mocrelay.Event, R2 []*mocrelay.Event) bool {
	for _, r := range R2 {
		if r.CreatedAt < x.CreatedAt {
			return false
		}
	}
	return true
}

func sameSet(a, b map[string]*mocrelay.Event) bool {
	if len(a) != len(b) {
		return false
	}
	for k := range a {
		if b[k] == nil {
			return false
		}
	}
	return true
}
