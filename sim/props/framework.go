// Package props holds one engine per property family: a generator (rapid), an
// executor (one deterministic simulated run) and its oracles.
package props

import (
	"encoding/json"
	"fmt"
	"hash/fnv"
	"io"
	"os"
	"sort"
	"strings"
	"testing"
	"time"

	"pgregory.net/rapid"
	"verif.local/sim/simrt"
)

// Engine is one simulated system + workload + oracle.
type Engine interface {
	// Gen draws a complete case (configuration, scenario, schedule).
	Gen(t *rapid.T, tier string) any
	// Decode parses a case from a replay file.
	Decode(b []byte) (any, error)
	// Exec performs the run. It must be a pure function of (tree, case).
	Exec(t *testing.T, c any) *simrt.Result
}

// Engines maps engine names to engines; Serves maps property ids to the engine
// that decides them.
// RaceMode: the binary was built with -race and engines restrict themselves to
// configurations whose harness is free of (hidden-sync) races.
var RaceMode bool

var Engines = map[string]Engine{}
var Serves = map[string]string{}

func register(name string, e Engine, props ...string) {
	Engines[name] = e
	for _, p := range props {
		Serves[p] = name
	}
}

// Known is one entry of /verif/known_findings.json.
type Known struct {
	Property string            `json:"property"`
	Class    string            `json:"class"`
	Attrs    map[string]string `json:"attrs,omitempty"`
	What     string            `json:"what"`
	Status   string            `json:"status"` // known | fixed
	Commit   string            `json:"commit,omitempty"`
	Probe    json.RawMessage   `json:"probe,omitempty"` // replay case that demonstrates it
}

func (k *Known) Matches(v simrt.Violation) bool {
	if k.Status != "known" || k.Property != v.Property || k.Class != v.Class {
		return false
	}
	for a, want := range k.Attrs {
		if v.Attrs[a] != want {
			return false
		}
	}
	return true
}

// ReplayFile is the on-disk form of a failing (or sample) execution.
type ReplayFile struct {
	Property string           `json:"property"`
	Engine   string           `json:"engine"`
	Case     json.RawMessage  `json:"case"`
	Expect   *simrt.Violation `json:"expect,omitempty"`
	Trace    []string         `json:"trace,omitempty"`
	Tree     string           `json:"tree,omitempty"`
	Seed     uint64           `json:"rapid_seed,omitempty"`
}

// WorkerOut is what one worker process reports.
type WorkerOut struct {
	Property     string            `json:"property"`
	Engine       string            `json:"engine"`
	Worker       int               `json:"worker"`
	SeedFirst    uint64            `json:"seed_first"`
	SeedLast     uint64            `json:"seed_last"`
	Runs         int64             `json:"runs"`
	Completed    int64             `json:"completed"`
	Steps        int64             `json:"steps"`
	Switches     int64             `json:"switches"`
	Preempts     int64             `json:"preemptions"`
	SimTimeNs    int64             `json:"sim_time_ns"`
	WallS        float64           `json:"wall_s"`
	Faults       map[string]int64  `json:"faults"`
	Configured   map[string]int64  `json:"configured"`
	Probes       map[string]int64  `json:"probes"`
	Scheds       []uint64          `json:"scheds"`     // distinct schedule hashes
	States       []uint64          `json:"states"`     // distinct abstract states
	NonTrivial   []uint64          `json:"nontrivial"` // distinct (case, schedule) hashes of non-trivial runs
	Samples      []json.RawMessage `json:"samples"`
	KnownHits    map[string]int64  `json:"known_hits"`  // what -> count
	OtherProps   map[string]int64  `json:"other_props"` // violations of properties other than the one asked for (not judged here)
	Failure      *ReplayFile       `json:"failure,omitempty"`
	Harness      []string          `json:"harness_errors,omitempty"`
	TraceHashes  map[string]uint64 `json:"trace_hashes,omitempty"`  // determinism spot check: case hash -> result hash
	TraceDigests map[string]string `json:"trace_digests,omitempty"` // with VERIF_DET_DIGEST=1: what the hashes were computed from
	Unconfirmed  int64             `json:"unconfirmed,omitempty"`   // violating runs that did not violate when re-executed from a clean process state
}

type acc struct {
	out    WorkerOut
	scheds map[uint64]struct{}
	states map[uint64]struct{}
	nontri map[uint64]struct{}
}

func newAcc(prop, eng string, worker int) *acc {
	return &acc{
		out: WorkerOut{Property: prop, Engine: eng, Worker: worker,
			Faults: map[string]int64{}, Configured: map[string]int64{}, Probes: map[string]int64{},
			KnownHits: map[string]int64{}, OtherProps: map[string]int64{}},
		scheds: map[uint64]struct{}{}, states: map[uint64]struct{}{}, nontri: map[uint64]struct{}{},
	}
}

func hashBytes(b []byte) uint64 {
	h := fnv.New64a()
	h.Write(b)
	return h.Sum64()
}

// ResultHash summarises everything harness-visible of a run, for the
// determinism checks.
func ResultHash(r *simrt.Result) uint64 {
	h := fnv.New64a()
	io.WriteString(h, ResultDigest(r))
	return h.Sum64()
}

// ResultDigest is the text ResultHash hashes (kept by the determinism
// self-test so that a divergence can be diagnosed).
func ResultDigest(r *simrt.Result) string {
	h := &strings.Builder{}
	fmt.Fprintf(h, "%d|%d|%d|%d|", r.Stats.Steps, r.Stats.Switches, r.Stats.SchedHash, int64(r.Stats.SimTime))
	for _, v := range r.Violations {
		fmt.Fprintf(h, "%s/%s/%d/%s|", v.Property, v.Class, v.Step, v.Msg)
	}
	ks := make([]string, 0, len(r.Stats.Probes))
	for k := range r.Stats.Probes {
		ks = append(ks, k)
	}
	sort.Strings(ks)
	for _, k := range ks {
		fmt.Fprintf(h, "%s=%d|", k, r.Stats.Probes[k])
	}
	for _, s := range r.Stats.States {
		fmt.Fprintf(h, "%x.", s)
	}
	fmt.Fprintf(h, "H:%s", r.Harness)
	return h.String()
}

func (a *acc) add(caseJSON []byte, r *simrt.Result) {
	o := &a.out
	o.Runs++
	if r.Stats.Completed {
		o.Completed++
	}
	o.Steps += int64(r.Stats.Steps)
	o.Switches += int64(r.Stats.Switches)
	o.Preempts += int64(r.Stats.Preemptions)
	o.SimTimeNs += int64(r.Stats.SimTime)
	for k, v := range r.Stats.Faults {
		o.Faults[k] += v
	}
	for k, v := range r.Stats.Configured {
		o.Configured[k] += v
	}
	for k, v := range r.Stats.Probes {
		o.Probes[k] += v
	}
	if len(a.scheds) < 4_000_000 {
		a.scheds[r.Stats.SchedHash] = struct{}{}
	}
	for _, s := range r.Stats.States {
		if len(a.states) < 4_000_000 {
			a.states[s] = struct{}{}
		}
	}
	if r.Stats.NonTrivial && len(a.nontri) < 4_000_000 {
		a.nontri[hashBytes(caseJSON)^r.Stats.SchedHash*31] = struct{}{}
	}
	if len(o.Samples) < 3 && r.Stats.NonTrivial {
		o.Samples = append(o.Samples, json.RawMessage(caseJSON))
	}
}

func (a *acc) finish(path string, wall time.Duration) error {
	o := &a.out
	o.WallS = wall.Seconds()
	for h := range a.scheds {
		o.Scheds = append(o.Scheds, h)
	}
	for h := range a.states {
		o.States = append(o.States, h)
	}
	for h := range a.nontri {
		o.NonTrivial = append(o.NonTrivial, h)
	}
	b, err := json.Marshal(o)
	if err != nil {
		return err
	}
	return os.WriteFile(path, b, 0o644)
}
