package props

import (
	"pgregory.net/rapid"
	"verif.local/sim/simrt"
)

// GenSchedule draws a schedule. maxAt is the engine's estimate of the length of
// a run in scheduling steps (explicit preemption points are drawn below it).
func GenSchedule(t *rapid.T, maxAt int) simrt.Schedule {
	var s simrt.Schedule
	mode := rapid.IntRange(0, 9).Draw(t, "sched.mode")
	if mode >= 2 && mode <= 5 || mode == 9 {
		n := rapid.IntRange(1, 4).Draw(t, "sched.npre")
		for i := 0; i < n; i++ {
			s.Preempt = append(s.Preempt, simrt.Pre{
				At:   rapid.IntRange(0, maxAt).Draw(t, "sched.at"),
				Pick: rapid.IntRange(0, 7).Draw(t, "sched.pick"),
			})
		}
		s.Forced = rapid.SliceOfN(rapid.IntRange(0, 7), 0, 24).Draw(t, "sched.forced")
	}
	if mode >= 6 {
		s.Seed = rapid.Uint64().Draw(t, "sched.seed")
		s.Density = rapid.SampledFrom([]int{2, 3, 5, 8, 16, 32, 64}).Draw(t, "sched.density")
	}
	if mode >= 1 {
		s.SelMode = uint64(rapid.IntRange(0, 6).Draw(t, "sched.selmode"))
		if rapid.IntRange(0, 1).Draw(t, "sched.maporder") == 1 {
			s.MapSeed = uint64(rapid.IntRange(1, 1<<30).Draw(t, "sched.mapseed"))
		}
	}
	return s
}
