package props

import (
	"slices"
	"math"
	"context"
	"encoding/json"
	"fmt"
	"hash/fnv"
	"strings"
	"testing"
	"time"

	"github.com/high-moctane/mocrelay"
	"github.com/high-moctane/mocrelay/verifsim"
	"pgregory.net/rapid"
	"verif.local/sim/ref"
	"verif.local/sim/simrt"
)

// Engine "merge": the real MergeHandler session over 2-4 scripted child
// handlers; every child emission and every client action is a scheduler
// decision. Oracles for C08 (merged REQ) and C09 (merged EVENT/COUNT).

type mEmit struct {
	Kind string `json:"k"` // event | eose | notice | closed | strayevent
	Ev   int    `json:"ev,omitempty"`
}

type mChild struct {
	Style  string    `json:"style"`         // seq | async
	Lag    int       `json:"lag,omitempty"` // milliseconds of simulated time before each emission (a slow child)
	Reqs   [][]mEmit `json:"reqs"`          // emissions for the k-th REQ this child receives
	OKs    []int     `json:"oks"`           // verdict for the k-th EVENT: 0 accept, 1.. reject with reason r<child>.<n>
	Counts []uint64  `json:"counts"`
}

type MergeCase struct {
	Events   []simrt.EvSpec `json:"events"`
	Children []mChild       `json:"children"`
	Script   []simrt.Op     `json:"script"`
	RepeatID bool           `json:"repeat_ids"` // EVENT / COUNT ids may repeat while in flight
	// Nest > 0: the first Nest children sit behind a merge handler of their own,
	// which is the first child of the outer one (merges compose)
	Nest int `json:"nest,omitempty"`
	// Prelude (with a slow child): before the judged session another client
	// connects to the same MergeHandler value, submits the script's first EVENT
	// and COUNT and is cancelled while the slow child has not answered yet
	// (sessions of one handler value must not inherit anything from one another)
	Prelude bool `json:"prelude,omitempty"`
	Sched    simrt.Schedule `json:"sched"`
}

type mergeEngine struct{}

func init() { register("merge", mergeEngine{}, "C08", "C09") }

func (mergeEngine) Decode(b []byte) (any, error) {
	var c MergeCase
	err := json.Unmarshal(b, &c)
	return &c, err
}

var mergePrefixes = []string{"blocked: ", "invalid: ", "rate-limited: ", "pow: ", "error: ", "duplicate: "}

func mergeFilters(t *rapid.T) []simrt.FilterSpec {
	i64 := func(v int64) *int64 { return &v }
	fam := [][]simrt.FilterSpec{
		{{}},
		{{Kinds: []int64{1}}},
		{{Limit: i64(2)}},
		{{Kinds: []int64{1}, Limit: i64(1)}},
		{{Authors: []string{ref.Authors[0].Pubkey}}, {Kinds: []int64{7}, Limit: i64(1)}},
		{{Since: i64(3)}},
		{{Limit: i64(0)}},
		{{Until: i64(4), Limit: i64(3)}},
		{{Tags: map[string][]string{"t": {"x", "y"}, "p": {ref.Authors[0].Pubkey}}}},
		{{Tags: map[string][]string{"t": {"x"}}, Limit: i64(2)}},
	}
	return fam[rapid.IntRange(0, len(fam)-1).Draw(t, "filters")]
}

func (mergeEngine) Gen(t *rapid.T, tier string) any {
	c := &MergeCase{}
	nev := rapid.IntRange(2, 8).Draw(t, "nev")
	for i := 0; i < nev; i++ {
		c.Events = append(c.Events, simrt.EvSpec{
			Author: rapid.IntRange(0, 1).Draw(t, "author"), Kind: rapid.SampledFrom([]int64{1, 1, 7}).Draw(t, "kind"),
			CreatedAt: int64(rapid.IntRange(0, 6).Draw(t, "created_at")), Content: fmt.Sprintf("m%d", i)})
		if rapid.IntRange(0, 11).Draw(t, "xts") == 0 {
			// far apart: before 1970 and near the ends of the int64 range
			c.Events[i].CreatedAt = rapid.SampledFrom([]int64{-5000000000000000000, 5000000000000000000, math.MinInt64, math.MaxInt64, -1}).Draw(t, "xtsv")
		}
		if tg := rapid.IntRange(0, 5).Draw(t, "tags"); tg > 0 {
			a0 := ref.Authors[0].Pubkey
			c.Events[i].Tags = [][][]string{{{"t", "x"}}, {{"p", a0}}, {{"t", "x"}, {"t", "y"}}, {{"t", "y"}, {"p", a0}}, {{"p", a0}, {"t", "z"}}}[tg-1]
		}
	}
	nch := rapid.IntRange(2, 4).Draw(t, "nchildren")
	// now and then a wide merge (the property speaks of every number of
	// children): children beyond the fourth are cheap copies, see below
	wide := 0
	if rapid.IntRange(0, 24).Draw(t, "wide") == 0 {
		wide = rapid.SampledFrom([]int{9, 17, 33, 65, 67}).Draw(t, "width")
		nch = 4
	}
	maxOps := 7
	if tier == "thorough" {
		maxOps = 12
	}
	c.RepeatID = rapid.IntRange(0, 3).Draw(t, "repeat") == 0
	nops := rapid.IntRange(1, maxOps).Draw(t, "nops")
	nReq, nEv, nCnt := 0, 0, 0
	subN := 0
	open := map[string]bool{} // sub ids with a REQ outstanding whose EOSE has not been awaited
	eoseN := map[string]int{} // number of EOSE awaited per sub id
	reqN := map[string]int{}  // REQs issued per sub id
	evUsed := map[int]bool{}
	for i := 0; i < nops; i++ {
		k := rapid.IntRange(0, 11).Draw(t, "opk")
		if c.RepeatID && k >= 7 && k <= 8 && rapid.IntRange(0, 1).Draw(t, "morecount") == 0 {
			k = 9 // several COUNTs of one id in flight together
		}
		switch {
		case k <= 3: // REQ
			sub := ""
			if rapid.IntRange(0, 2).Draw(t, "reuse") == 0 {
				sub = rapid.SampledFrom([]string{"a", "b"}).Draw(t, "sub")
			} else {
				subN++
				sub = fmt.Sprintf("s%d", subN)
			}
			if open[sub] {
				// not re-issued before its EOSE: wait for it first
				eoseN[sub]++
				c.Script = append(c.Script, simrt.Op{Kind: "awaitkey", Key: "EOSE:" + sub, N: eoseN[sub]})
				open[sub] = false
			}
			c.Script = append(c.Script, simrt.Op{Kind: "send", Msg: &simrt.Msg{T: "REQ", Sub: sub, Filters: mergeFilters(t)}})
			open[sub] = true
			reqN[sub]++
			nReq++
		case k <= 5: // CLOSE
			csubs := []string{"a", "b", "s1", "s2"}
			for q := 0; q < nCnt; q++ { // REQ and COUNT share the subscription-id namespace
				csubs = append(csubs, fmt.Sprintf("q%d", q), fmt.Sprintf("q%d", q))
			}
			if c.RepeatID && nCnt > 0 {
				csubs = append(csubs, "p", "q")
			}
			sub := rapid.SampledFrom(csubs).Draw(t, "csub")
			if open[sub] && rapid.IntRange(0, 1).Draw(t, "closewait") == 0 {
				eoseN[sub]++
				c.Script = append(c.Script, simrt.Op{Kind: "awaitkey", Key: "EOSE:" + sub, N: eoseN[sub]})
				open[sub] = false
			}
			if open[sub] {
				// closing before the EOSE: the id must not be re-issued afterwards in
				// this run (its EOSE may or may not come)
				open[sub] = true
			}
			c.Script = append(c.Script, simrt.Op{Kind: "send", Msg: &simrt.Msg{T: "CLOSE", Sub: sub}})
		case k <= 8: // EVENT
			ei := rapid.IntRange(0, nev-1).Draw(t, "ev")
			if evUsed[ei] && !c.RepeatID {
				continue
			}
			evUsed[ei] = true
			e := c.Events[ei]
			c.Script = append(c.Script, simrt.Op{Kind: "send", Msg: &simrt.Msg{T: "EVENT", Ev: &e}})
			nEv++
		case k == 9: // COUNT
			sub := fmt.Sprintf("q%d", nCnt)
			if c.RepeatID {
				sub = rapid.SampledFrom([]string{"p", "q"}).Draw(t, "cntsub")
			}
			c.Script = append(c.Script, simrt.Op{Kind: "send", Msg: &simrt.Msg{T: "COUNT", Sub: sub, Filters: []simrt.FilterSpec{{}}}})
			nCnt++
		default: // pause/resume the reader: back-pressure on the merged stream
			if rapid.IntRange(0, 1).Draw(t, "pr") == 0 {
				c.Script = append(c.Script, simrt.Op{Kind: "pause"})
			} else {
				c.Script = append(c.Script, simrt.Op{Kind: "resume"})
			}
		}
	}
	if c.RepeatID && rapid.IntRange(0, 3).Draw(t, "flood") == 0 {
		// a client replaying one event many times over while the answers are
		// outstanding: every submission gets its own OK, however many are pending
		e := c.Events[0]
		for j, n := 0, rapid.SampledFrom([]int{17, 20, 33}).Draw(t, "floodn"); j < n; j++ {
			ev := e
			c.Script = append(c.Script, simrt.Op{Kind: "send", Msg: &simrt.Msg{T: "EVENT", Ev: &ev}})
			nEv++
		}
	}
	for ci := 0; ci < nch; ci++ {
		ch := mChild{Style: rapid.SampledFrom([]string{"seq", "seq", "async"}).Draw(t, "style")}
		for r := 0; r < nReq; r++ {
			var em []mEmit
			ns := rapid.IntRange(0, 4).Draw(t, "nstored")
			sorted := rapid.IntRange(0, 3).Draw(t, "sorted") > 0
			var idx []int
			for j := 0; j < ns; j++ {
				idx = append(idx, rapid.IntRange(0, nev-1).Draw(t, "sev"))
			}
			if sorted {
				for a := 0; a < len(idx); a++ {
					for b := a + 1; b < len(idx); b++ {
						if c.Events[idx[b]].CreatedAt > c.Events[idx[a]].CreatedAt {
							idx[a], idx[b] = idx[b], idx[a]
						}
					}
				}
			}
			for _, x := range idx {
				em = append(em, mEmit{Kind: "event", Ev: x})
			}
			switch rapid.IntRange(0, 11).Draw(t, "eosekind") {
			case 0: // never sends EOSE
			case 2:
				em = append(em, mEmit{Kind: "closed"})
			default:
				em = append(em, mEmit{Kind: "eose"})
			}
			nl := rapid.IntRange(0, 3).Draw(t, "nlive")
			for j := 0; j < nl; j++ {
				switch rapid.IntRange(0, 7).Draw(t, "livekind") {
				case 0:
					em = append(em, mEmit{Kind: "notice"})
				case 1:
					em = append(em, mEmit{Kind: "strayevent", Ev: rapid.IntRange(0, nev-1).Draw(t, "lev")})
				default:
					em = append(em, mEmit{Kind: "event", Ev: rapid.IntRange(0, nev-1).Draw(t, "lev")})
				}
			}
			ch.Reqs = append(ch.Reqs, em)
		}
		for e := 0; e < nEv; e++ {
			v := 0
			if rapid.IntRange(0, 2).Draw(t, "reject") == 0 {
				v = 1 + rapid.IntRange(0, len(mergePrefixes)-1).Draw(t, "reason")
			}
			ch.OKs = append(ch.OKs, v)
		}
		for q := 0; q < nCnt; q++ {
			ch.Counts = append(ch.Counts, rapid.SampledFrom([]uint64{0, 1, 2, 3, 4, 5, 5, 1 << 62, 1 << 63, 1<<63 + 10, math.MaxUint64 - 1, math.MaxUint64}).Draw(t, "count"))
		}
		c.Children = append(c.Children, ch)
	}
	for ci := nch; ci < wide; ci++ {
		// same verdicts and counts as child ci%4, and of its stream only how each
		// stored phase ends
		src := c.Children[ci%4]
		ch := mChild{Style: src.Style, OKs: append([]int(nil), src.OKs...), Counts: append([]uint64(nil), src.Counts...)}
		for _, em := range src.Reqs {
			var cp []mEmit
			for _, e := range em {
				if e.Kind == "eose" || e.Kind == "closed" {
					cp = append(cp, e)
				}
			}
			ch.Reqs = append(ch.Reqs, cp)
		}
		c.Children = append(c.Children, ch)
	}
	// a slow child: in wide merges usually one of the last, else any
	if wide > 0 || rapid.IntRange(0, 3).Draw(t, "slowchild") == 0 {
		n := len(c.Children)
		li := rapid.IntRange(0, n-1).Draw(t, "late")
		if wide > 0 && rapid.IntRange(0, 2).Draw(t, "latelast") > 0 {
			li = n - 1 - rapid.IntRange(0, 2).Draw(t, "lateoff")
		}
		c.Children[li].Lag = rapid.SampledFrom([]int{20, 400}).Draw(t, "lag")
	}
	c.Prelude = rapid.IntRange(0, 2).Draw(t, "prelude") == 0
	if wide == 0 && nch >= 3 && rapid.IntRange(0, 2).Draw(t, "nested") == 0 {
		c.Nest = rapid.IntRange(2, nch-1).Draw(t, "nest")
	}
	c.Sched = GenSchedule(t, 1500)
	return c
}

// ---- scripted child

type mRec struct { // one emission of a child
	child int
	req   int // index of the client's REQ it belongs to (-1: reply to EVENT/COUNT)
	pos   int // position in the child's emission order
	msg   mocrelay.ServerMsg
	start int64
	done  int64 // 0: never completed
	evIdx int   // for OK: index of the EVENT request; for COUNT: index of the COUNT request
}

type mStub struct {
	sim   *simrt.Sim
	idx   int
	plan  *mChild
	evs   []*mocrelay.Event
	recs  []*mRec
	byMsg map[mocrelay.ServerMsg]*mRec
	// reception stamps
	gotClose        map[string][]int64
	nReq, nEv, nCnt int
}

func (s *mStub) reactions(m mocrelay.ClientMsg) []*mRec {
	var out []*mRec
	add := func(req int, msg mocrelay.ServerMsg, evIdx int) {
		out = append(out, &mRec{child: s.idx, req: req, msg: msg, evIdx: evIdx})
	}
	switch m := m.(type) {
	case *mocrelay.ClientReqMsg:
		k := s.nReq
		s.nReq++
		if k < len(s.plan.Reqs) {
			for _, e := range s.plan.Reqs[k] {
				switch e.Kind {
				case "event":
					add(k, mocrelay.NewServerEventMsg(m.SubscriptionID, s.evs[e.Ev]), -1)
				case "strayevent":
					add(-2, mocrelay.NewServerEventMsg("unknown-sub", s.evs[e.Ev]), -1)
				case "eose":
					add(k, mocrelay.NewServerEOSEMsg(m.SubscriptionID), -1)
				case "closed":
					add(k, mocrelay.NewServerClosedMsg(m.SubscriptionID, "error: ", fmt.Sprintf("child %d gives up", s.idx)), -1)
				case "notice":
					add(-2, mocrelay.NewServerNoticeMsg(fmt.Sprintf("notice from child %d", s.idx)), -1)
				}
			}
		}
	case *mocrelay.ClientEventMsg:
		k := s.nEv
		s.nEv++
		v := 0
		if k < len(s.plan.OKs) {
			v = s.plan.OKs[k]
		}
		if v == 0 {
			add(-1, mocrelay.NewServerOKMsg(m.Event.ID, true, "", ""), k)
		} else {
			// reason texts: ordinary, bare prefix, leading / trailing blank
			txt := fmt.Sprintf("reason of child %d for event #%d", s.idx, k)
			switch (v + k + s.idx) % 5 {
			case 1:
				txt = ""
			case 2:
				txt = " " + txt
			case 3:
				txt += " "
			}
			add(-1, mocrelay.NewServerOKMsg(m.Event.ID, false, mergePrefixes[v-1], txt), k)
		}
	case *mocrelay.ClientCountMsg:
		k := s.nCnt
		s.nCnt++
		n := uint64(0)
		if k < len(s.plan.Counts) {
			n = s.plan.Counts[k]
		}
		add(-3, mocrelay.NewServerCountMsg(m.SubscriptionID, n, nil), k)
	case *mocrelay.ClientCloseMsg:
		s.gotClose[m.SubscriptionID] = append(s.gotClose[m.SubscriptionID], s.sim.Stamp())
	}
	return out
}

func (s *mStub) emit(ctx context.Context, send chan<- mocrelay.ServerMsg, r *mRec) bool {
	verifsim.Yield(fmt.Sprintf("child%d.emit", s.idx))
	if s.plan.Lag > 0 {
		// a slow child: simulated time passes only when everything else is quiescent
		time.Sleep(time.Duration(s.plan.Lag) * time.Millisecond)
		verifsim.Yield(fmt.Sprintf("child%d.lag", s.idx))
	}
	r.pos = len(s.recs)
	s.recs = append(s.recs, r)
	s.byMsg[r.msg] = r
	r.start = s.sim.Stamp()
	select {
	case send <- r.msg:
		r.done = s.sim.Stamp()
		s.sim.Logf("child%d emitted %s", s.idx, simrt.DescribeServer(r.msg))
		return true
	case <-ctx.Done():
		return false
	}
}

func (s *mStub) ServeNostr(ctx context.Context, send chan<- mocrelay.ServerMsg, recv <-chan mocrelay.ClientMsg) error {
	verifsim.NameMe(fmt.Sprintf("child%d", s.idx))
	// sessions follow one another (prelude, then the judged one): per-session
	// records start empty
	s.recs, s.byMsg, s.gotClose = nil, map[mocrelay.ServerMsg]*mRec{}, map[string][]int64{}
	s.nReq, s.nEv, s.nCnt = 0, 0, 0
	if s.plan.Style == "seq" {
		for {
			verifsim.Yield(fmt.Sprintf("child%d.recv", s.idx))
			select {
			case <-ctx.Done():
				return ctx.Err()
			case m, ok := <-recv:
				if !ok {
					return mocrelay.ErrRecvClosed
				}
				for _, r := range s.reactions(m) {
					if !s.emit(ctx, send, r) {
						return ctx.Err()
					}
				}
			}
		}
	}
	// async: reading never waits for emitting
	queue := make(chan *mRec, 4096)
	done := make(chan struct{})
	go func() {
		defer close(done)
		verifsim.NameMe(fmt.Sprintf("child%d.em", s.idx))
		for {
			select {
			case <-ctx.Done():
				return
			case r := <-queue:
				if !s.emit(ctx, send, r) {
					return
				}
			}
		}
	}()
	defer func() { <-done }()
	for {
		verifsim.Yield(fmt.Sprintf("child%d.recv", s.idx))
		select {
		case <-ctx.Done():
			return ctx.Err()
		case m, ok := <-recv:
			if !ok {
				return mocrelay.ErrRecvClosed
			}
			for _, r := range s.reactions(m) {
				queue <- r
			}
		}
	}
}

func mergeKey(m mocrelay.ServerMsg) string {
	switch x := m.(type) {
	case *mocrelay.ServerEOSEMsg:
		return "EOSE:" + x.SubscriptionID
	case *mocrelay.ServerOKMsg:
		return "OK"
	case *mocrelay.ServerCountMsg:
		return "COUNT"
	}
	return "other"
}

func (mergeEngine) Exec(t *testing.T, cc any) *simrt.Result {
	c := cc.(*MergeCase)
	return simrt.Run(t, c.Sched, 300000, func(sim *simrt.Sim) {
		st := &sim.Res.Stats
		evs := make([]*mocrelay.Event, len(c.Events))
		for i := range c.Events {
			evs[i] = c.Events[i].Event()
		}
		if len(c.Children) > 4 {
			st.Probe(fmt.Sprintf("wide_merge_%d_children", len(c.Children)))
		}
		var stubs []*mStub
		var hs []mocrelay.Handler
		for i := range c.Children {
			s := &mStub{sim: sim, idx: i, plan: &c.Children[i], evs: evs, byMsg: map[mocrelay.ServerMsg]*mRec{}, gotClose: map[string][]int64{}}
			stubs = append(stubs, s)
			hs = append(hs, s)
		}
		if c.Nest >= 2 && c.Nest < len(hs) {
			st.Probe("nested_merge")
			hs = append([]mocrelay.Handler{mocrelay.NewMergeHandler(hs[:c.Nest:c.Nest]...)}, hs[c.Nest:]...)
		}
		h := mocrelay.NewMergeHandler(hs...)
		// make EVENT messages of the script share the case's event objects
		for i := range c.Script {
			if m := c.Script[i].Msg; m != nil && m.T == "EVENT" {
				for j := range c.Events {
					if c.Events[j].Content == m.Ev.Content {
						m.EvObj = evs[j]
					}
				}
			}
		}
		if c.Prelude {
			lag := 0
			for i := range c.Children {
				lag = max(lag, c.Children[i].Lag)
			}
			var pre []simrt.Op
			seenEv, seenCnt := false, false
			for i := range c.Script {
				if m := c.Script[i].Msg; m != nil && (m.T == "EVENT" && !seenEv || m.T == "COUNT" && !seenCnt) {
					pre = append(pre, c.Script[i])
					seenEv, seenCnt = seenEv || m.T == "EVENT", seenCnt || m.T == "COUNT"
				}
			}
			if lag > 0 && len(pre) > 0 {
				st.Fault("session-cut-with-requests-half-answered")
				pc := sim.NewClient(context.Background(), "pre", pre)
				pc.Serve(h)
				sim.Drive() // the slow child sleeps on simulated time: its answers are outstanding
				pc.Cancel()
				sim.Drive()
				sim.Advance(time.Duration(2*lag) * time.Millisecond)
				pc.Stop()
				sim.Drive()
			}
		}
		cl := sim.NewClient(context.Background(), "cl", c.Script)
		cl.KeyOf = mergeKey
		cl.Serve(h)
		driveQ := func() bool {
			for i := 0; i < 64; i++ {
				if s := sim.Drive(); s != simrt.Quiescent {
					sim.Violate("C08", "deadlock", nil, "scheduler status %d: %v", s, sim.S.ParkedNames())
					return false
				}
				if !cl.Paused() {
					break
				}
				st.Fault("reader-stall")
				cl.Resume()
			}
			return true
		}
		if !driveQ() {
			return
		}
		// slow children: let simulated time pass, one emission per round
		rounds, lag := 0, 0
		for i := range c.Children {
			if ch := &c.Children[i]; ch.Lag > 0 {
				n := 1 + len(ch.OKs) + len(ch.Counts)
				for _, em := range ch.Reqs {
					n += len(em)
				}
				rounds, lag = max(rounds, n), max(lag, ch.Lag)
			}
		}
		if rounds > 0 {
			st.Fault("slow-child")
		}
		for r := 0; r < min(rounds, 60); r++ {
			sim.Advance(time.Duration(lag) * time.Millisecond)
			if !driveQ() {
				return
			}
		}
		// the script may be waiting for an EOSE that legitimately never comes (a
		// child that never sends one): that is allowed; everything is judged on
		// what was received at this final quiescent point.
		mergeJudge(sim, c, cl, stubs, evs)
		st.Completed = true
	})
}

type mInc struct {
	idx      int
	sub      string
	filters  []*mocrelay.ReqFilter
	sent     *simrt.Sent
	end      int64 // CLOSE / re-REQ of the same id sent (inf: never)
	closed   bool  // a CLOSE for it was sent
	closeAcc int64
	closeIdx int // how many CLOSEs of this subscription id the client had sent before the one that closed it
}

func mergeJudge(sim *simrt.Sim, c *MergeCase, cl *simrt.Client, stubs []*mStub, evs []*mocrelay.Event) {
	st := &sim.Res.Stats
	n := len(stubs)
	// ---- client history
	var incs []*mInc
	openInc := map[string]*mInc{}
	nClose := map[string]int{}
	type evReq struct {
		sent *simrt.Sent
		id   string
		k    int
	}
	var evReqs []*evReq
	var cntReqs []*simrt.Sent
	for _, s := range cl.Sent {
		if s.Accepted == 0 {
			continue // never taken by the merged handler
		}
		switch m := s.Msg.(type) {
		case *mocrelay.ClientReqMsg:
			if o := openInc[m.SubscriptionID]; o != nil && o.end == inf {
				o.end = s.Invoke
			}
			in := &mInc{idx: len(incs), sub: m.SubscriptionID, filters: m.ReqFilters, sent: s, end: inf}
			incs = append(incs, in)
			openInc[m.SubscriptionID] = in
		case *mocrelay.ClientCloseMsg:
			nClose[m.SubscriptionID]++
			if o := openInc[m.SubscriptionID]; o != nil && o.end == inf {
				o.end = s.Invoke
				o.closed = true
				o.closeIdx = nClose[m.SubscriptionID] - 1
				o.closeAcc = s.Accepted
			}
		case *mocrelay.ClientEventMsg:
			evReqs = append(evReqs, &evReq{sent: s, id: m.Event.ID, k: len(evReqs)})
		case *mocrelay.ClientCountMsg:
			cntReqs = append(cntReqs, s)
		}
	}
	find := func(m mocrelay.ServerMsg) *mRec {
		for _, s := range stubs {
			if r := s.byMsg[m]; r != nil {
				return r
			}
		}
		return nil
	}
	// ---- C08
	type incState struct {
		eoseAt  int64
		eoseN   int
		pre     []*mocrelay.ServerEventMsg
		lastPos map[int]int
	}
	is := make([]*incState, len(incs))
	for i := range is {
		is[i] = &incState{eoseAt: inf, lastPos: map[int]int{}}
	}
	received := map[mocrelay.ServerMsg]int64{}
	for _, g := range cl.Got {
		switch m := g.Msg.(type) {
		case *mocrelay.ServerEventMsg:
			r := find(m)
			if r == nil {
				sim.Violate("C08", "message-not-from-child", nil, "client received %s which no child emitted (forwarded messages must be unchanged)", simrt.DescribeServer(m))
				continue
			}
			if received[m] != 0 {
				sim.Violate("C08", "forwarded-twice", nil, "client received the same child message twice: %s", simrt.DescribeServer(m))
			}
			received[m] = g.Stamp
			if r.req < 0 {
				continue // stray event for a subscription nobody asked for: passes as is
			}
			if r.req >= len(incs) {
				continue
			}
			in, s := incs[r.req], is[r.req]
			if m.SubscriptionID != in.sub {
				sim.Violate("C08", "wrong-subscription-id", nil, "forwarded event carries %q, the child used %q", m.SubscriptionID, in.sub)
			}
			if last, ok := s.lastPos[r.child]; ok && r.pos < last {
				sim.Violate("C08", "child-order", nil, "REQ #%d: messages of child %d forwarded out of its emission order", r.req, r.child)
			}
			s.lastPos[r.child] = r.pos
			// the stream constraints hold while the subscription is open: up to its
			// EOSE, and not beyond the moment the client started to close it
			if g.Stamp < s.eoseAt && !(in.closed && g.Stamp > in.end) {
				s.pre = append(s.pre, m)
			}
		case *mocrelay.ServerEOSEMsg:
			r := find(m)
			if r == nil || r.req < 0 || r.req >= len(incs) {
				sim.Violate("C08", "message-not-from-child", nil, "client received %s which no child emitted for a REQ", simrt.DescribeServer(m))
				continue
			}
			s := is[r.req]
			s.eoseN++
			if s.eoseN > 1 {
				sim.Violate("C08", "second-eose", nil, "REQ #%d (sub %s) got a second EOSE", r.req, incs[r.req].sub)
				continue
			}
			s.eoseAt = g.Stamp
			received[m] = g.Stamp
			// never earlier than every child's own EOSE
			for ci, sb := range stubs {
				ok := false
				for _, cr := range sb.recs {
					if cr.req == r.req && cr.done != 0 && cr.done < g.Stamp {
						if _, is := cr.msg.(*mocrelay.ServerEOSEMsg); is {
							ok = true
						}
					}
				}
				if !ok {
					sim.Violate("C08", "early-eose", nil, "REQ #%d (sub %s): merged EOSE received at %d before child %d had sent its own EOSE", r.req, incs[r.req].sub, g.Stamp, ci)
				}
			}
		case *mocrelay.ServerNoticeMsg, *mocrelay.ServerClosedMsg:
			if find(m) == nil {
				sim.Violate("C08", "message-not-from-child", nil, "client received %s which no child emitted", simrt.DescribeServer(m))
			}
			received[m] = g.Stamp
		}
	}
	for i, in := range incs {
		s := is[i]
		// before the EOSE: matching, distinct, ordered, limited
		seen := map[string]bool{}
		for j, m := range s.pre {
			if !ref.MatchAny(m.Event, in.filters) {
				sim.Violate("C08", "pre-eose-nonmatching", nil, "REQ #%d (sub %s): event %s forwarded before the EOSE does not match the filters", i, in.sub, ref.Short(m.Event.ID))
			}
			if seen[m.Event.ID] {
				sim.Violate("C08", "pre-eose-duplicate", nil, "REQ #%d (sub %s): event %s forwarded twice before the EOSE", i, in.sub, ref.Short(m.Event.ID))
			}
			seen[m.Event.ID] = true
			if j > 0 && s.pre[j-1].Event.CreatedAt < m.Event.CreatedAt {
				sim.Violate("C08", "pre-eose-order", nil, "REQ #%d (sub %s): created_at %d forwarded after %d before the EOSE", i, in.sub, m.Event.CreatedAt, s.pre[j-1].Event.CreatedAt)
			}
		}
		if len(in.filters) == 1 && in.filters[0].Limit != nil && int64(len(s.pre)) > *in.filters[0].Limit {
			sim.Violate("C08", "pre-eose-over-limit", nil, "REQ #%d (sub %s): %d events forwarded before the EOSE with limit %d", i, in.sub, len(s.pre), *in.filters[0].Limit)
		}
		// EOSE liveness / must-not
		all := true
		afterClose := false
		for _, sb := range stubs {
			has := false
			for _, cr := range sb.recs {
				if cr.req != i {
					continue
				}
				if _, isE := cr.msg.(*mocrelay.ServerEOSEMsg); isE && cr.done != 0 {
					has = true
					if in.closed {
						// the k-th CLOSE of an id a child receives is the k-th one the
						// client sent (FIFO along the path; behind a nested merge an
						// earlier CLOSE of the same id may arrive after the REQ was taken)
						if gc := sb.gotClose[in.sub]; in.closeIdx < len(gc) && gc[in.closeIdx] < cr.start {
							afterClose = true
						}
					}
					break
				}
			}
			if !has {
				all = false
			}
		}
		if all && !in.closed && s.eoseN == 0 {
			sim.Violate("C08", "missing-eose", nil, "REQ #%d (sub %s): every child has sent its EOSE, the client never closed it and drained everything, but no EOSE arrived", i, in.sub)
		}
		if all {
			st.Probe("all_children_eose")
		}
		if in.closed && all {
			st.Probe("eose_racing_close")
		}
		if afterClose && s.eoseN > 0 && s.eoseAt > in.closeAcc {
			sim.Violate("C08", "eose-after-close", nil, "REQ #%d (sub %s): EOSE received although a child sent its own EOSE only after it had received the client's CLOSE", i, in.sub)
		}
		// after the EOSE: everything a child starts emitting later is forwarded
		if s.eoseN > 0 {
			for _, sb := range stubs {
				for _, cr := range sb.recs {
					if cr.req != i || cr.done == 0 || cr.start < s.eoseAt || cr.done > in.end {
						continue
					}
					if _, isEv := cr.msg.(*mocrelay.ServerEventMsg); !isEv {
						continue
					}
					if in.end != inf {
						// the id was re-issued or closed later: demand forwarding only when a
						// later message of the same child got through before that (per-child
						// FIFO then proves this one had been processed in time)
						proven := false
						for _, c2 := range sb.recs {
							if c2.pos > cr.pos && received[c2.msg] != 0 && received[c2.msg] < in.end {
								proven = true
							}
						}
						if !proven {
							continue
						}
					}
					st.Probe("live_after_eose")
					if received[cr.msg] == 0 {
						sim.Violate("C08", "live-event-dropped", nil, "REQ #%d (sub %s): child %d emitted %s in [%d,%d] after the client had received the EOSE at %d, but it was never forwarded", i, in.sub, sb.idx, simrt.DescribeServer(cr.msg), cr.start, cr.done, s.eoseAt)
					}
				}
			}
		}
	}
	// ---- C09: OK aggregation
	okGot := map[string][]simrt.Got{}
	var cntGot []simrt.Got
	for _, g := range cl.Got {
		switch m := g.Msg.(type) {
		case *mocrelay.ServerOKMsg:
			okGot[m.EventID] = append(okGot[m.EventID], g)
		case *mocrelay.ServerCountMsg:
			cntGot = append(cntGot, g)
		}
	}
	perID := map[string][]*evReq{}
	for _, r := range evReqs {
		perID[r.id] = append(perID[r.id], r)
	}
	allReplied := func(kind int, k int) (bool, int64) { // did every child complete its reply to request k; latest completion
		last := int64(0)
		for _, sb := range stubs {
			ok := false
			for _, cr := range sb.recs {
				if cr.evIdx == k && cr.done != 0 && ((kind == 0 && cr.req == -1) || (kind == 1 && cr.req == -3)) {
					ok = true
					if cr.done > last {
						last = cr.done
					}
				}
			}
			if !ok {
				return false, 0
			}
		}
		return true, last
	}
	for id, rs := range perID {
		complete := true
		for _, r := range rs {
			if ok, _ := allReplied(0, r.k); !ok {
				complete = false
			}
		}
		got := okGot[id]
		repeated := len(rs) > 1
		if len(got) > len(rs) {
			sim.Violate("C09", "too-many-ok", map[string]string{"repeated": fmt.Sprint(repeated)}, "event %s submitted %d time(s) but %d OK received", ref.Short(id), len(rs), len(got))
		}
		if complete && len(got) < len(rs) {
			sim.Violate("C09", "missing-ok", map[string]string{"repeated": fmt.Sprint(repeated)}, "event %s submitted %d time(s), every child replied to each, the client drained, but only %d OK received", ref.Short(id), len(rs), len(got))
		}
		if repeated {
			st.Probe("repeated_event_id")
			// each submission has its own conjunction of child verdicts: the
			// multiset of received verdicts must equal the multiset of those
			if complete && len(got) == len(rs) {
				wantAcc, gotAcc := 0, 0
				for _, r := range rs {
					acc := true
					for _, sb := range stubs {
						for _, cr := range sb.recs {
							if cr.req == -1 && cr.evIdx == r.k && !cr.msg.(*mocrelay.ServerOKMsg).Accepted {
								acc = false
							}
						}
					}
					if acc {
						wantAcc++
					}
				}
				for _, g := range got {
					if g.Msg.(*mocrelay.ServerOKMsg).Accepted {
						gotAcc++
					}
				}
				if wantAcc != gotAcc {
					sim.Violate("C09", "wrong-verdict", map[string]string{"repeated": "true"}, "event %s submitted %d times: %d submissions were accepted by every child, %d accepting OKs received", ref.Short(id), len(rs), wantAcc, gotAcc)
				}
			}
			continue
		}
		if len(got) != 1 {
			continue
		}
		r := rs[0]
		okm := got[0].Msg.(*mocrelay.ServerOKMsg)
		_, last := allReplied(0, r.k)
		if ok, _ := allReplied(0, r.k); !ok || got[0].Stamp < last {
			sim.Violate("C09", "ok-before-all-children", nil, "OK for %s received at %d before every child had sent its reply", ref.Short(id), got[0].Stamp)
			continue
		}
		wantAcc := true
		var rejecting []*mRec
		for _, sb := range stubs {
			for _, cr := range sb.recs {
				if cr.req == -1 && cr.evIdx == r.k {
					if m := cr.msg.(*mocrelay.ServerOKMsg); !m.Accepted {
						wantAcc = false
						rejecting = append(rejecting, cr)
					}
				}
			}
		}
		if okm.Accepted != wantAcc {
			sim.Violate("C09", "wrong-verdict", nil, "event %s: merged verdict %v, children's conjunction %v", ref.Short(id), okm.Accepted, wantAcc)
		} else if !wantAcc {
			st.Probe("rejected_event")
			// text begins with the first rejecting child's reason: lowest index or
			// earliest reply - either reading of "first" is accepted
			lowest, earliest := rejecting[0], rejecting[0]
			for _, cr := range rejecting {
				if cr.child < lowest.child {
					lowest = cr
				}
				if cr.done < earliest.done {
					earliest = cr
				}
			}
			t1 := lowest.msg.(*mocrelay.ServerOKMsg).Message()
			t2 := earliest.msg.(*mocrelay.ServerOKMsg).Message()
			if !strings.HasPrefix(okm.Message(), t1) && !strings.HasPrefix(okm.Message(), t2) {
				sim.Violate("C09", "reason-prefix-lost", nil, "event %s rejected with %q, which begins neither with %q (lowest child) nor %q (earliest reply)", ref.Short(id), okm.Message(), t1, t2)
			}
		}
	}
	for id := range okGot {
		if perID[id] == nil {
			sim.Violate("C09", "too-many-ok", map[string]string{"repeated": "false"}, "OK for %s which was never submitted", ref.Short(id))
		}
	}
	// ---- C09: COUNT
	perSub := map[string][]int{}
	for k, s := range cntReqs {
		sub := s.Msg.(*mocrelay.ClientCountMsg).SubscriptionID
		perSub[sub] = append(perSub[sub], k)
	}
	gotPerSub := map[string][]simrt.Got{}
	for _, g := range cntGot {
		m := g.Msg.(*mocrelay.ServerCountMsg)
		gotPerSub[m.SubscriptionID] = append(gotPerSub[m.SubscriptionID], g)
	}
	for sub, ks := range perSub {
		complete := true
		for _, k := range ks {
			if ok, _ := allReplied(1, k); !ok {
				complete = false
			}
		}
		got := gotPerSub[sub]
		repeated := len(ks) > 1
		if len(got) > len(ks) {
			sim.Violate("C09", "too-many-count", map[string]string{"repeated": fmt.Sprint(repeated)}, "COUNT %s requested %d time(s) but %d replies received", sub, len(ks), len(got))
		}
		if complete && len(got) < len(ks) {
			sim.Violate("C09", "missing-count", map[string]string{"repeated": fmt.Sprint(repeated)}, "COUNT %s requested %d time(s), every child replied, but only %d replies received", sub, len(ks), len(got))
		}
		if repeated || len(got) != 1 {
			if repeated {
				st.Probe("repeated_count_id")
				// which reply answers which of the same-named requests is not
				// observable: the replies as a multiset are the per-request maxima
				if complete && len(got) == len(ks) {
					var wants, gots []uint64
					for _, k := range ks {
						mx := uint64(0)
						for _, sb := range stubs {
							for _, cr := range sb.recs {
								if cr.req == -3 && cr.evIdx == k {
									mx = max(mx, cr.msg.(*mocrelay.ServerCountMsg).Count)
								}
							}
						}
						wants = append(wants, mx)
					}
					for _, g := range got {
						gots = append(gots, g.Msg.(*mocrelay.ServerCountMsg).Count)
					}
					slices.Sort(wants)
					slices.Sort(gots)
					if !slices.Equal(wants, gots) {
						sim.Violate("C09", "wrong-count", map[string]string{"repeated": "true"}, "COUNT %s requested %d times: the replies carry %v, the per-request maxima of the children are %v", sub, len(ks), gots, wants)
					}
				}
			}
			continue
		}
		want := uint64(0)
		for _, sb := range stubs {
			for _, cr := range sb.recs {
				if cr.req == -3 && cr.evIdx == ks[0] {
					if v := cr.msg.(*mocrelay.ServerCountMsg).Count; v > want {
						want = v
					}
				}
			}
		}
		if v := got[0].Msg.(*mocrelay.ServerCountMsg).Count; v != want {
			sim.Violate("C09", "wrong-count", nil, "COUNT %s: merged value %d, maximum of the children %d", sub, v, want)
		}
		if _, last := allReplied(1, ks[0]); got[0].Stamp < last {
			sim.Violate("C09", "count-before-all-children", nil, "COUNT %s reply received before every child had replied", sub)
		}
	}
	for sub := range gotPerSub {
		if perSub[sub] == nil {
			sim.Violate("C09", "too-many-count", map[string]string{"repeated": "false"}, "COUNT reply for %s which was never requested", sub)
		}
	}
	h := fnv.New64a()
	for _, g := range cl.Got {
		fmt.Fprintf(h, "%s|", mergeKey(g.Msg))
	}
	st.State(h.Sum64())
	st.NonTrivial = len(cl.Got) >= 2 && sim.S.Switches > 3*n
	_ = n
}
