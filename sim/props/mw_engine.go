package props

import (
	"net/http"
	"math"
	"context"
	"encoding/json"
	"fmt"
	"hash/fnv"
	"io"
	"log/slog"
	"sort"
	"strings"
	"testing"
	"time"

	"github.com/high-moctane/mocrelay"
	mocprom "github.com/high-moctane/mocrelay/middleware/prometheus"
	"github.com/high-moctane/mocrelay/verifsim"
	"github.com/prometheus/client_golang/prometheus"
	"pgregory.net/rapid"
	"verif.local/sim/ref"
	"verif.local/sim/simrt"
)

// Engine "mw": a stack of the provided middlewares between 1-4 scripted clients
// and a recording downstream handler that emits its own stream of server
// messages. Oracles: C17 (limit middlewares, NIP-11 chain), C18 (subscription
// quota, unique filters, per-connection state), C19 (prometheus middleware).

const mwEpoch = 946684800 // 2000-01-01T00:00:00Z, where the simulated clock starts

type MwSpec struct {
	Kind   string            `json:"kind"`
	N      int               `json:"n,omitempty"`
	From   int64             `json:"from,omitempty"` // seconds
	To     int64             `json:"to,omitempty"`
	Filter *simrt.FilterSpec `json:"filter,omitempty"`
	// Filter2: the allow/deny matcher is built from a filter LIST (Filter,
	// Filter2) - an event matches when it matches either; limits of the
	// filters (Filter may carry limit 0) mean nothing to an allow/deny list
	Filter2 *simrt.FilterSpec `json:"filter2,omitempty"`
}

type mwNIP11 struct {
	Nil          bool  `json:"nil,omitempty"`           // nil document
	NoLimitation bool  `json:"no_limitation,omitempty"` // document without limitation block
	MaxSubs      int   `json:"max_subscriptions,omitempty"`
	MaxFilters   int   `json:"max_filters,omitempty"`
	MaxLimit     int   `json:"max_limit,omitempty"`
	MaxTags      int   `json:"max_event_tags,omitempty"`
	MaxContent   int   `json:"max_content_length,omitempty"`
	Lower        int64 `json:"created_at_lower_limit,omitempty"`
	Upper        int64 `json:"created_at_upper_limit,omitempty"`
}

type mwDown struct { // one autonomous emission of the downstream handler
	T   string `json:"t"` // EOSE EVENT OK NOTICE CLOSED COUNT AUTH
	Sub string `json:"sub,omitempty"`
	Ev  int    `json:"ev,omitempty"`
}

type mwClient struct {
	Script []simrt.Op `json:"script"`
	Down   []mwDown   `json:"down"`
}

type MwCase struct {
	Prop    string         `json:"prop"`
	Stack   []MwSpec       `json:"stack"` // outermost first
	NIP11   *mwNIP11       `json:"nip11,omitempty"`
	Events  []simrt.EvSpec `json:"events"`
	Clients []mwClient     `json:"clients"`
	// LateFrom > 0: clients from that index on connect only after every earlier
	// session has ended (connections following one another on one middleware
	// value; state must not survive a connection)
	LateFrom int            `json:"late_from,omitempty"`
	// ReplyOK: downstream also answers every EVENT it receives with an OK for
	// that event: accepting, or refusing with one of the machine-readable prefixes
	ReplyOK bool `json:"reply_ok,omitempty"`
	// ReqHeaders: every session's context carries an upgrade request, as under
	// a Relay - the same one for all sessions (a reverse proxy in front: same
	// remote address, same X-Request-Id / X-Forwarded-For / User-Agent)
	ReqHeaders bool `json:"req_headers,omitempty"`
	Sched    simrt.Schedule `json:"sched"`
}

type mwEngine struct{ prop string }

func init() {
	register("mw-limits", mwEngine{"C17"}, "C17")
	register("mw-stateful", mwEngine{"C18"}, "C18")
	register("mw-metrics", mwEngine{"C19"}, "C19")
}

func (mwEngine) Decode(b []byte) (any, error) {
	var c MwCase
	err := json.Unmarshal(b, &c)
	return &c, err
}

// ---------------------------------------------------------------- generator

func (e mwEngine) Gen(t *rapid.T, tier string) any {
	c := &MwCase{Prop: e.prop}
	maxOps := 8
	if tier == "thorough" {
		maxOps = 14
	}
	// event pool: few ids so that repeats happen
	nev := rapid.IntRange(2, 5).Draw(t, "nev")
	lim := rapid.IntRange(1, 5).Draw(t, "limitvalue")
	for i := 0; i < nev; i++ {
		ev := simrt.EvSpec{Author: rapid.IntRange(0, 1).Draw(t, "author"), Kind: rapid.SampledFrom([]int64{1, 7, 0}).Draw(t, "kind")}
		ntags := rapid.SampledFrom([]int{0, lim - 1, lim, lim + 1}).Draw(t, "ntags")
		for j := 0; j < ntags; j++ {
			ev.Tags = append(ev.Tags, []string{"t", fmt.Sprintf("v%d", j)})
		}
		if e.prop == "C17" && rapid.IntRange(0, 5).Draw(t, "crossed") == 0 {
			// the values the allow/deny filters ask for, under the other tag's name
			ev.Tags = append(ev.Tags, []string{"t", ref.Authors[0].Pubkey}, []string{"p", "v0"})
		} else if e.prop == "C17" && rapid.IntRange(0, 2).Draw(t, "ptag") == 0 {
			pt := []string{"p", ref.Authors[rapid.IntRange(0, 1).Draw(t, "pwho")].Pubkey}
			if rapid.IntRange(0, 1).Draw(t, "pfirst") == 0 {
				ev.Tags = append([][]string{pt}, ev.Tags...) // tag order varies between events
			} else {
				ev.Tags = append(ev.Tags, pt)
			}
		}
		ev.Content = strings.Repeat("x", rapid.SampledFrom([]int{0, max(lim-1, 0), lim, lim + 1, 40}).Draw(t, "contentlen"))
		ev.Content += "" // ASCII only: length in bytes = length in characters
		c.Events = append(c.Events, ev)
	}
	switch e.prop {
	case "C17":
		if rapid.IntRange(0, 3).Draw(t, "usenip11") == 0 {
			n := &mwNIP11{}
			switch rapid.IntRange(0, 7).Draw(t, "nip11kind") {
			case 0:
				n.Nil = true
			case 1:
				n.NoLimitation = true
			default:
				pick := func(v int) int {
					if rapid.IntRange(0, 1).Draw(t, "set") == 0 {
						return 0
					}
					return v
				}
				n.MaxSubs = pick(rapid.IntRange(1, 3).Draw(t, "ms"))
				n.MaxFilters = pick(lim)
				n.MaxLimit = pick(lim)
				n.MaxTags = pick(lim)
				n.MaxContent = pick(lim)
				n.Lower = int64(pick(rapid.SampledFrom([]int{10, 60, 3600}).Draw(t, "lower")))
				n.Upper = int64(pick(rapid.SampledFrom([]int{10, 60, 900}).Draw(t, "upper")))
			}
			c.NIP11 = n
		} else {
			kinds := []string{"maxfilters", "maxlimit", "maxsubid", "maxtags", "maxcontent", "lower", "upper", "createdat", "allow", "deny", "logging"}
			ns := rapid.IntRange(1, 5).Draw(t, "nstack")
			for i := 0; i < ns; i++ {
				m := MwSpec{Kind: rapid.SampledFrom(kinds).Draw(t, "mwkind"), N: lim}
				switch m.Kind {
				case "lower":
					m.N = rapid.SampledFrom([]int{10, 60, 3600}).Draw(t, "lower")
				case "upper":
					m.N = rapid.SampledFrom([]int{10, 60, 900}).Draw(t, "upper")
				case "createdat":
					m.From = -int64(rapid.SampledFrom([]int{10, 60, 3600}).Draw(t, "from"))
					m.To = int64(rapid.SampledFrom([]int{10, 60, 900}).Draw(t, "to"))
				case "allow", "deny":
					f := simrt.FilterSpec{Kinds: []int64{rapid.SampledFrom([]int64{1, 7}).Draw(t, "fkind")}}
					if rapid.IntRange(0, 1).Draw(t, "fauth") == 0 {
						f.Authors = []string{ref.Authors[0].Pubkey}
					}
					// tag conditions: several values per name (an event may satisfy one
					// name twice) and several names (all must be satisfied)
					if rapid.IntRange(0, 1).Draw(t, "ftags") == 0 {
						f.Tags = map[string][]string{}
						if rapid.IntRange(0, 3).Draw(t, "ft") > 0 {
							f.Tags["t"] = [][]string{{"v0"}, {"v0", "v1"}, {"v1", "v2", "v3"}}[rapid.IntRange(0, 2).Draw(t, "ftv")]
						}
						if rapid.IntRange(0, 1).Draw(t, "fp") == 0 {
							f.Tags["p"] = []string{ref.Authors[0].Pubkey}
						}
						if rapid.IntRange(0, 2).Draw(t, "fnokind") == 0 {
							f.Kinds = nil
						}
					}
					m.Filter = &f
					if rapid.IntRange(0, 2).Draw(t, "flist") == 0 {
						f2 := simrt.FilterSpec{Kinds: []int64{0}}
						if rapid.IntRange(0, 1).Draw(t, "f2auth") == 0 {
							f2 = simrt.FilterSpec{Authors: []string{ref.Authors[1].Pubkey}, Kinds: []int64{1}}
						}
						m.Filter2 = &f2
						z := int64(rapid.IntRange(0, 1).Draw(t, "flim"))
						m.Filter.Limit = &z
					}
				}
				c.Stack = append(c.Stack, m)
			}
		}
	case "C18":
		kinds := []string{"maxsubs", "recvunique", "sendunique"}
		st := MwSpec{Kind: rapid.SampledFrom(kinds).Draw(t, "stateful"), N: rapid.IntRange(1, 3).Draw(t, "n")}
		c.Stack = []MwSpec{st}
		c.ReplyOK = st.Kind == "recvunique" && rapid.IntRange(0, 1).Draw(t, "replyok") == 0
		if st.Kind != "maxsubs" && rapid.IntRange(0, 2).Draw(t, "second") == 0 {
			// both unique filters in one stack, with different window sizes
			other := map[string]string{"recvunique": "sendunique", "sendunique": "recvunique"}[st.Kind]
			c.Stack = append(c.Stack, MwSpec{Kind: other, N: st.N%3 + 1})
		}
		// optionally surround it by deterministic limit middlewares
		if rapid.IntRange(0, 2).Draw(t, "wrap") == 0 {
			c.Stack = append([]MwSpec{{Kind: "maxfilters", N: 2}}, c.Stack...)
		}
		if rapid.IntRange(0, 2).Draw(t, "wrap2") == 0 {
			c.Stack = append(c.Stack, MwSpec{Kind: "maxtags", N: lim})
		}
	case "C19":
		c.Stack = []MwSpec{{Kind: "prom"}}
		if rapid.IntRange(0, 3).Draw(t, "wrap") == 0 {
			c.Stack = append(c.Stack, MwSpec{Kind: "maxfilters", N: 1})
		}
		if rapid.IntRange(0, 3).Draw(t, "wrapout") == 0 {
			c.Stack = append([]MwSpec{{Kind: "maxtags", N: lim}}, c.Stack...)
		}
	}
	ncl := 1
	if e.prop != "C17" || rapid.IntRange(0, 3).Draw(t, "twoclients") == 0 {
		ncl = rapid.IntRange(1, map[string]int{"C17": 2, "C18": 3, "C19": 4}[e.prop]).Draw(t, "nclients")
	}
	quota := 3
	for _, m := range c.Stack {
		if m.Kind == "maxsubs" {
			quota = m.N
		}
	}
	if c.NIP11 != nil && c.NIP11.MaxSubs > 0 {
		quota = c.NIP11.MaxSubs
	}
	subs := []string{}
	for i := 0; i < quota+2; i++ {
		subs = append(subs, fmt.Sprintf("%c", 'a'+i))
	}
	if (e.prop == "C18" || e.prop == "C19") && rapid.IntRange(0, 3).Draw(t, "longsubs") == 0 {
		// long ids that share their first 64 bytes
		subs[0] = strings.Repeat("L", 64) + "-one"
		subs[1] = strings.Repeat("L", 64) + "-two"
	}
	if rapid.IntRange(0, 4).Draw(t, "emptysub") == 0 {
		subs[0] = "" // the empty string is a subscription id like any other
	}
	subs = append(subs, strings.Repeat("s", lim), strings.Repeat("s", lim+1))
	mkFilters := func() []simrt.FilterSpec {
		n := rapid.SampledFrom([]int{1, 1, lim - 1, lim, lim + 1, 0}).Draw(t, "nf")
		if n < 0 {
			n = 0
		}
		fs := []simrt.FilterSpec{}
		for i := 0; i < n; i++ {
			f := simrt.FilterSpec{}
			switch rapid.IntRange(0, 3).Draw(t, "lk") {
			case 0:
				v := int64(rapid.SampledFrom([]int{0, lim - 1, lim, lim + 1, 1000}).Draw(t, "limit"))
				if v >= 0 {
					f.Limit = &v
				}
			case 1:
				f.Kinds = []int64{1}
			}
			fs = append(fs, f)
		}
		return fs
	}
	for ci := 0; ci < ncl; ci++ {
		var cl mwClient
		now := int64(mwEpoch)
		nops := rapid.IntRange(1, maxOps).Draw(t, "nops")
		uniq := hasKind(c.Stack, "recvunique")
		if uniq {
			nops = rapid.IntRange(3, maxOps+6).Draw(t, "nops-unique")
		}
		for i := 0; i < nops; i++ {
			k := rapid.IntRange(0, 15).Draw(t, "opk")
			if uniq && rapid.IntRange(0, 3).Draw(t, "force-event") > 0 {
				k = 6 // window boundaries are crossed by EVENT repeats
			}
			switch {
			case k <= 3:
				cl.Script = append(cl.Script, simrt.Op{Kind: "send", Msg: &simrt.Msg{T: "REQ", Sub: rapid.SampledFrom(subs).Draw(t, "sub"), Filters: mkFilters()}})
			case k <= 5:
				cl.Script = append(cl.Script, simrt.Op{Kind: "send", Msg: &simrt.Msg{T: "CLOSE", Sub: rapid.SampledFrom(subs).Draw(t, "sub")}})
			case k <= 9:
				ev := c.Events[rapid.IntRange(0, nev-1).Draw(t, "ev")]
				// created_at relative to the simulated clock at the time of sending:
				// boundaries of the configured windows +-2s, and far inside/outside
				off := rapid.SampledFrom([]int64{0, -8, -12, 8, 12, -58, -62, 58, 62, -3598, -3602, 898, 902, -100000, 100000}).Draw(t, "offset")
				ev.CreatedAt = now + off
				if e.prop == "C17" && rapid.IntRange(0, 9).Draw(t, "extreme") == 0 {
					// timestamps at the ends of the representable range
					// (2^64 ns = 18446744073.7 s: where nanosecond arithmetic wraps around)
					ev.CreatedAt = rapid.SampledFrom([]int64{now + 18446744073, now - 18446744073, now + 18446744073 + 600, now + 2*18446744073 + 1, now + 9223372036, now - 9223372037, math.MinInt64, math.MinInt64 + 1, math.MinInt64 + 1700000000, -1 << 62, -62135596801, -1, 0, 1 << 62, math.MaxInt64 - 62135596800, math.MaxInt64 - 1, math.MaxInt64}).Draw(t, "xts")
				}
				if e.prop == "C17" && rapid.IntRange(0, 4).Draw(t, "sameid") == 0 {
					// different events under one id: a verdict belongs to the event, not to its id
					ev.ForceID = strings.Repeat("5a", 32)
				}
				cl.Script = append(cl.Script, simrt.Op{Kind: "send", Msg: &simrt.Msg{T: "EVENT", Ev: &ev}})
			case k == 10:
				cl.Script = append(cl.Script, simrt.Op{Kind: "send", Msg: &simrt.Msg{T: "COUNT", Sub: rapid.SampledFrom(subs).Draw(t, "sub"), Filters: mkFilters()}})
			case k == 11:
				ev := c.Events[0]
				ev.Kind = 22242
				ev.CreatedAt = now
				cl.Script = append(cl.Script, simrt.Op{Kind: "send", Msg: &simrt.Msg{T: "AUTH", Ev: &ev}})
			case k == 12:
				d := rapid.SampledFrom([]int64{1, 5, 30, 100, 4000}).Draw(t, "adv")
				cl.Script = append(cl.Script, simrt.Op{Kind: "advance", D: d})
				if ncl == 1 {
					now += d // with several clients the absolute time at a send is not static
				}
			case k == 13:
				cl.Script = append(cl.Script, simrt.Op{Kind: "sync"})
			case k == 14:
				cl.Script = append(cl.Script, simrt.Op{Kind: "pause"})
			default:
				cl.Script = append(cl.Script, simrt.Op{Kind: "resume"})
			}
		}
		if e.prop == "C19" {
			switch rapid.IntRange(0, 5).Draw(t, "end") {
			case 0, 1:
				cl.Script = append(cl.Script, simrt.Op{Kind: "cancel"}, simrt.Op{Kind: "sync"})
			case 2:
				cl.Script = append(cl.Script, simrt.Op{Kind: "closerecv"}, simrt.Op{Kind: "sync"})
			}
		}
		nd := rapid.IntRange(0, 6).Draw(t, "ndown")
		sendUniq := hasKind(c.Stack, "sendunique")
		if sendUniq || uniq {
			nd = rapid.IntRange(3, 14).Draw(t, "ndown-unique")
		}
		for i := 0; i < nd; i++ {
			d := mwDown{T: rapid.SampledFrom([]string{"EOSE", "EVENT", "EVENT", "EVENT", "OK", "NOTICE", "CLOSED", "CLOSED", "COUNT", "AUTH"}).Draw(t, "dt")}
			if sendUniq && rapid.IntRange(0, 3).Draw(t, "force-down-event") > 0 {
				d.T = "EVENT"
			}
			if uniq && !sendUniq && rapid.IntRange(0, 1).Draw(t, "force-down-ok") == 0 {
				// verdicts about the few event ids in play come back while the
				// client keeps repeating them
				d.T = "OK"
			}
			if rapid.IntRange(0, 5).Draw(t, "dsleep") == 0 {
				d.T = "SLEEP"
			}
			d.Sub = rapid.SampledFrom(subs[:quota+2]).Draw(t, "dsub")
			d.Ev = rapid.IntRange(0, nev-1).Draw(t, "dev")
			cl.Down = append(cl.Down, d)
		}
		if e.prop == "C19" && rapid.IntRange(0, 5).Draw(t, "crash") == 0 {
			// the session ends because the wrapped handler panics on this message
			pe := simrt.EvSpec{Author: 0, Kind: 1, CreatedAt: now, Content: mwPanicContent}
			cl.Script = append(cl.Script, simrt.Op{Kind: "send", Msg: &simrt.Msg{T: "EVENT", Ev: &pe}})
		}
		c.Clients = append(c.Clients, cl)
	}
	if len(c.Clients) >= 2 && rapid.IntRange(0, 3).Draw(t, "late") == 0 {
		c.LateFrom = len(c.Clients) - 1
	}
	c.ReqHeaders = rapid.IntRange(0, 2).Draw(t, "reqheaders") == 0
	c.Sched = GenSchedule(t, 1200)
	return c
}

// ---------------------------------------------------------------- models

type verdict int

const (
	vPass verdict = iota
	vReject
	vMay
)

type lruWin struct {
	size int
	ids  []string // most recent last
	ever map[string]bool
}

func (w *lruWin) see(id string) verdict {
	v := vPass
	in := false
	for _, x := range w.ids {
		if x == id {
			in = true
		}
	}
	switch {
	case in:
		v = vReject
	case w.ever[id]:
		v = vMay
	}
	// move to front, keep the last `size` distinct ids
	var n []string
	for _, x := range w.ids {
		if x != id {
			n = append(n, x)
		}
	}
	n = append(n, id)
	if len(n) > w.size {
		n = n[len(n)-w.size:]
	}
	w.ids = n
	w.ever[id] = true
	return v
}

type mwState struct {
	spec *MwSpec
	open map[string]bool // maxsubs
	win  *lruWin         // unique filters
}

func newMwState(s *MwSpec) *mwState {
	return &mwState{spec: s, open: map[string]bool{}, win: &lruWin{size: s.N, ever: map[string]bool{}}}
}

// secsUntil is created_at minus now in seconds, in arithmetic that cannot
// overflow (time.Time and time.Duration wrap or saturate at the ends of the
// int64 range; the specification of the window does not).
func secsUntil(createdAt int64, now time.Time) float64 {
	return float64(createdAt) - float64(now.UnixNano())/1e9
}

func timeVerdict(f func(now time.Time) bool, t0, t1 time.Time) verdict {
	a, b := f(t0), f(t1)
	// +-1s safety margin around the moving boundary
	a2, b2 := f(t0.Add(-time.Second)), f(t1.Add(time.Second))
	if a == b && a == a2 && a == b2 {
		if a {
			return vReject
		}
		return vPass
	}
	return vMay
}

// client returns the verdict of one middleware on one client message (and
// updates its per-connection state). t0..t1 is the interval of simulated time
// in which the message was processed.
func (st *mwState) client(m mocrelay.ClientMsg, t0, t1 time.Time) verdict {
	s := st.spec
	filters := func() ([]*mocrelay.ReqFilter, string, bool) {
		switch x := m.(type) {
		case *mocrelay.ClientReqMsg:
			return x.ReqFilters, x.SubscriptionID, true
		case *mocrelay.ClientCountMsg:
			return x.ReqFilters, x.SubscriptionID, true
		}
		return nil, "", false
	}
	ev, isEv := m.(*mocrelay.ClientEventMsg)
	switch s.Kind {
	case "maxfilters":
		if fs, _, ok := filters(); ok && len(fs) > s.N {
			return vReject
		}
	case "maxlimit":
		if fs, _, ok := filters(); ok {
			for _, f := range fs {
				if f.Limit != nil && *f.Limit > int64(s.N) {
					return vReject
				}
			}
		}
	case "maxsubid":
		if _, sub, ok := filters(); ok && len(sub) > s.N {
			return vReject
		}
	case "maxtags":
		if isEv && len(ev.Event.Tags) > s.N {
			return vReject
		}
	case "maxcontent":
		if isEv && len(ev.Event.Content) > s.N {
			return vReject
		}
	case "lower":
		if isEv {
			return timeVerdict(func(now time.Time) bool { return -secsUntil(ev.Event.CreatedAt, now) > float64(s.N) }, t0, t1)
		}
	case "upper":
		if isEv {
			return timeVerdict(func(now time.Time) bool { return secsUntil(ev.Event.CreatedAt, now) > float64(s.N) }, t0, t1)
		}
	case "createdat":
		if isEv {
			return timeVerdict(func(now time.Time) bool {
				d := secsUntil(ev.Event.CreatedAt, now)
				return d < float64(s.From) || d > float64(s.To)
			}, t0, t1)
		}
	case "allow":
		if isEv && !ref.Match(ev.Event, s.Filter.Filter()) && !(s.Filter2 != nil && ref.Match(ev.Event, s.Filter2.Filter())) {
			return vReject
		}
	case "deny":
		if isEv && (ref.Match(ev.Event, s.Filter.Filter()) || s.Filter2 != nil && ref.Match(ev.Event, s.Filter2.Filter())) {
			return vReject
		}
	case "maxsubs":
		switch x := m.(type) {
		case *mocrelay.ClientReqMsg:
			if st.open[x.SubscriptionID] || len(st.open) < s.N {
				st.open[x.SubscriptionID] = true
				return vPass
			}
			return vReject
		case *mocrelay.ClientCloseMsg:
			delete(st.open, x.SubscriptionID)
		}
	case "recvunique":
		if isEv {
			return st.win.see(ev.Event.ID)
		}
	}
	return vPass
}

func (st *mwState) server(m mocrelay.ServerMsg) verdict {
	if st.spec.Kind == "sendunique" {
		if e, ok := m.(*mocrelay.ServerEventMsg); ok {
			return st.win.see(e.Event.ID)
		}
	}
	return vPass
}

func (c *MwCase) effectiveStack() []MwSpec {
	if c.NIP11 == nil {
		return c.Stack
	}
	n := c.NIP11
	if n.Nil || n.NoLimitation {
		return nil
	}
	// BuildMiddlewareFromNIP11 wraps in this order, the last one outermost
	var in []MwSpec
	if n.MaxSubs != 0 {
		in = append(in, MwSpec{Kind: "maxsubs", N: n.MaxSubs})
	}
	if n.MaxFilters != 0 {
		in = append(in, MwSpec{Kind: "maxfilters", N: n.MaxFilters})
	}
	if n.MaxLimit != 0 {
		in = append(in, MwSpec{Kind: "maxlimit", N: n.MaxLimit})
	}
	if n.MaxTags != 0 {
		in = append(in, MwSpec{Kind: "maxtags", N: n.MaxTags})
	}
	if n.MaxContent != 0 {
		in = append(in, MwSpec{Kind: "maxcontent", N: n.MaxContent})
	}
	if n.Lower != 0 {
		in = append(in, MwSpec{Kind: "lower", N: int(n.Lower)})
	}
	if n.Upper != 0 {
		in = append(in, MwSpec{Kind: "upper", N: int(n.Upper)})
	}
	// outermost first
	out := make([]MwSpec, len(in))
	for i := range in {
		out[len(in)-1-i] = in[i]
	}
	return out
}

func buildMw(s *MwSpec, reg *prometheus.Registry) mocrelay.Middleware {
	switch s.Kind {
	case "maxsubs":
		return mocrelay.Middleware(mocrelay.NewMaxSubscriptionsMiddleware(s.N))
	case "maxfilters":
		return mocrelay.Middleware(mocrelay.NewMaxReqFiltersMiddleware(s.N))
	case "maxlimit":
		return mocrelay.Middleware(mocrelay.NewMaxLimitMiddleware(s.N))
	case "maxsubid":
		return mocrelay.Middleware(mocrelay.NewMaxSubIDLengthMiddleware(s.N))
	case "maxtags":
		return mocrelay.Middleware(mocrelay.NewMaxEventTagsMiddleware(s.N))
	case "maxcontent":
		return mocrelay.Middleware(mocrelay.NewMaxContentLengthMiddleware(s.N))
	case "lower":
		return mocrelay.Middleware(mocrelay.NewCreatedAtLowerLimitMiddleware(int64(s.N)))
	case "upper":
		return mocrelay.Middleware(mocrelay.NewCreatedAtUpperLimitMiddleware(int64(s.N)))
	case "createdat":
		return mocrelay.Middleware(mocrelay.NewEventCreatedAtMiddleware(time.Duration(s.From)*time.Second, time.Duration(s.To)*time.Second))
	case "allow":
		if s.Filter2 != nil {
			return mocrelay.Middleware(mocrelay.NewRecvEventAllowFilterMiddleware(mocrelay.NewReqFiltersEventLimitMatcher([]*mocrelay.ReqFilter{s.Filter.Filter(), s.Filter2.Filter()})))
		}
		return mocrelay.Middleware(mocrelay.NewRecvEventAllowFilterMiddleware(mocrelay.NewReqFilterMatcher(s.Filter.Filter())))
	case "deny":
		if s.Filter2 != nil {
			return mocrelay.Middleware(mocrelay.NewRecvEventDenyFilterMiddleware(mocrelay.NewReqFiltersEventLimitMatcher([]*mocrelay.ReqFilter{s.Filter.Filter(), s.Filter2.Filter()})))
		}
		return mocrelay.Middleware(mocrelay.NewRecvEventDenyFilterMiddleware(mocrelay.NewReqFilterMatcher(s.Filter.Filter())))
	case "logging":
		return mocrelay.Middleware(mocrelay.NewLoggingMiddleware(slog.New(slog.NewTextHandler(io.Discard, nil))))
	case "recvunique":
		return mocrelay.Middleware(mocrelay.NewRecvEventUniqueFilterMiddleware(s.N))
	case "sendunique":
		return mocrelay.Middleware(mocrelay.NewSendEventUniqueFilterMiddleware(s.N))
	case "prom":
		return mocrelay.Middleware(mocprom.NewPrometheusMiddleware(reg))
	}
	panic("unknown middleware kind " + s.Kind)
}

// ---------------------------------------------------------------- downstream stub

type mwDownRec struct {
	msg   mocrelay.ServerMsg
	start int64
	done  int64
	doneT time.Time
}

type mwRecv struct {
	msg   mocrelay.ClientMsg
	stamp int64
	t     time.Time
}

type mwSession struct {
	recvd []mwRecv
	emits []*mwDownRec
	byMsg map[mocrelay.ServerMsg]*mwDownRec
	ended bool
	crashed bool // the downstream handler panicked: the session was torn down with messages in flight
}

type mwCtxKey struct{}

type mwDownstream struct {
	sim  *simrt.Sim
	c    *MwCase
	evs  []*mocrelay.Event
	sess []*mwSession
}

// The downstream actor is harness code that shares its records with the judge
// through the scheduler's (hidden) synchronisation: excluded from race
// instrumentation like the client actors (closures are functions of their own,
// hence the named methods).
//
//go:norace
func (d *mwDownstream) ServeNostr(ctx context.Context, send chan<- mocrelay.ServerMsg, recv <-chan mocrelay.ClientMsg) error {
	ci, _ := ctx.Value(mwCtxKey{}).(int)
	s := d.sess[ci]
	verifsim.NameMe(fmt.Sprintf("down%d", ci))
	done := make(chan struct{})
	stop := make(chan struct{})
	replies := make(chan mocrelay.ServerMsg, 256)
	go d.emitLoop(ctx, ci, s, send, done, stop, replies)
	defer d.serveEnd(s, done, stop)
	nEv := 0
	for {
		verifsim.Yield(fmt.Sprintf("down%d", ci))
		select {
		case <-ctx.Done():
			return ctx.Err()
		case m, ok := <-recv:
			if !ok {
				return mocrelay.ErrRecvClosed
			}
			s.recvd = append(s.recvd, mwRecv{m, d.sim.Stamp(), time.Now()})
			if ev, ok := m.(*mocrelay.ClientEventMsg); ok && d.c.ReplyOK && ev.Event.Content != mwPanicContent {
				pre := []string{"", "rate-limited: ", "", "error: ", "duplicate: ", "blocked: "}[nEv%6]
				nEv++
				select {
				case replies <- mocrelay.NewServerOKMsg(ev.Event.ID, pre == "", pre, "verdict of downstream"):
				default:
				}
			}
			if ev, ok := m.(*mocrelay.ClientEventMsg); ok && ev.Event.Content == mwPanicContent {
				// the wrapped handler crashes; whoever serves the connection recovers
				// (as net/http does per connection)
				s.crashed = true // (counted as a fault by the judge; map operations of
				// harness bookkeeping report to the race detector even from norace code)
				panic("verif: downstream handler crashed")
			}
		}
	}
}

//go:norace
func (d *mwDownstream) serveEnd(s *mwSession, done, stop chan struct{}) {
	close(stop)
	<-done
	s.ended = true
}

//go:norace
func (d *mwDownstream) emitOne(ctx context.Context, s *mwSession, send chan<- mocrelay.ServerMsg, stop chan struct{}, m mocrelay.ServerMsg) bool {
	r := &mwDownRec{msg: m, start: d.sim.Stamp()}
	s.emits = append(s.emits, r)
	select {
	case send <- m:
		r.done = d.sim.Stamp()
		r.doneT = time.Now()
		return true
	case <-ctx.Done():
		return false
	case <-stop:
		return false
	}
}

//go:norace
func (d *mwDownstream) emitLoop(ctx context.Context, ci int, s *mwSession, send chan<- mocrelay.ServerMsg, done, stop chan struct{}, replies chan mocrelay.ServerMsg) {
	defer close(done)
	name := fmt.Sprintf("down%d.em", ci)
	verifsim.NameMe(name)
	for _, e := range d.c.Clients[ci].Down {
		verifsim.Yield(name)
		// replies to received events go out between the scripted emissions ...
		select {
		case m := <-replies:
			if !d.emitOne(ctx, s, send, stop, m) {
				return
			}
		default:
		}
		var m mocrelay.ServerMsg
		switch e.T {
		case "SLEEP":
			// the rest of the stream comes later (when a client script advances the clock)
			select {
			case <-time.After(500 * time.Millisecond):
			case <-ctx.Done():
				return
			case <-stop:
				return
			}
			continue
		case "EOSE":
			m = mocrelay.NewServerEOSEMsg(e.Sub)
		case "EVENT":
			m = mocrelay.NewServerEventMsg(e.Sub, d.evs[e.Ev])
		case "OK":
			// accepting, or refusing with one of the machine-readable prefixes
			pre := []string{"", "", "rate-limited: ", "error: ", "duplicate: ", "blocked: "}[(e.Ev+len(s.emits))%6]
			m = mocrelay.NewServerOKMsg(d.evs[e.Ev].ID, pre == "" && e.Ev%2 == 0, pre, "from downstream")
		case "NOTICE":
			m = mocrelay.NewServerNoticeMsg("downstream notice")
		case "CLOSED":
			m = mocrelay.NewServerClosedMsg(e.Sub, "error: ", "downstream closed it")
		case "COUNT":
			m = mocrelay.NewServerCountMsg(e.Sub, uint64(e.Ev), nil)
		case "AUTH":
			m = &mocrelay.ServerAuthMsg{Challenge: "challenge"}
		}
		if !d.emitOne(ctx, s, send, stop, m) {
			return
		}
	}
	// ... and, once the script is through, as they come
	for d.c.ReplyOK {
		verifsim.Yield(name)
		select {
		case m := <-replies:
			if !d.emitOne(ctx, s, send, stop, m) {
				return
			}
		case <-ctx.Done():
			return
		case <-stop:
			return
		}
	}
}

const mwPanicContent = "panic!"

// mwRecover stands for the server code above the handler chain that recovers a
// panic of a connection's goroutine.
type mwRecover struct{ h mocrelay.Handler }

func (r mwRecover) ServeNostr(ctx context.Context, send chan<- mocrelay.ServerMsg, recv <-chan mocrelay.ClientMsg) (err error) {
	defer func() {
		if p := recover(); p != nil {
			if s, ok := p.(string); !ok || !strings.HasPrefix(s, "verif: downstream handler crashed") {
				panic(p)
			}
			err = fmt.Errorf("recovered: %v", p)
		}
	}()
	return r.h.ServeNostr(ctx, send, recv)
}

// ---------------------------------------------------------------- executor

func (e mwEngine) Exec(t *testing.T, cc any) *simrt.Result {
	c := cc.(*MwCase)
	return simrt.Run(t, c.Sched, 400000, func(sim *simrt.Sim) {
		st := &sim.Res.Stats
		evs := make([]*mocrelay.Event, len(c.Events))
		for i := range c.Events {
			evs[i] = c.Events[i].Event()
		}
		down := &mwDownstream{sim: sim, c: c, evs: evs}
		for range c.Clients {
			down.sess = append(down.sess, &mwSession{byMsg: map[mocrelay.ServerMsg]*mwDownRec{}})
		}
		reg := prometheus.NewRegistry()
		var h mocrelay.Handler = down
		stack := c.effectiveStack()
		if c.NIP11 != nil {
			var doc *mocrelay.NIP11
			if !c.NIP11.Nil {
				doc = &mocrelay.NIP11{Name: "verif"}
				if !c.NIP11.NoLimitation {
					n := c.NIP11
					doc.Limitation = &mocrelay.NIP11Limitation{MaxSubscriptions: n.MaxSubs, MaxFilters: n.MaxFilters, MaxLimit: n.MaxLimit,
						MaxEventTags: n.MaxTags, MaxContentLength: n.MaxContent, CreatedAtLowerLimit: n.Lower, CreatedAtUpperLimit: n.Upper}
				}
			}
			ok := func() (ok bool) {
				defer func() {
					if p := recover(); p != nil {
						at := map[string]string{"doc": "nil"}
						if doc != nil {
							at["doc"] = "no-limitation-block"
						}
						sim.Violate("C17", "nip11-chain-panics", at, "BuildMiddlewareFromNIP11 panicked for a document without limitation block (the chain must be the identity): %v", p)
					}
				}()
				h = mocrelay.BuildMiddlewareFromNIP11(doc)(h)
				return true
			}()
			if !ok {
				return
			}
			st.Probe("nip11_chain")
		} else {
			for i := len(c.Stack) - 1; i >= 0; i-- {
				h = buildMw(&c.Stack[i], reg)(h)
			}
		}
		h = mwRecover{h}
		var cls []*simrt.Client
		for i, cl := range c.Clients {
			ctx := context.WithValue(context.Background(), mwCtxKey{}, i)
			if c.ReqHeaders {
				rq, _ := http.NewRequest("GET", "http://relay.example/", nil)
				rq.RemoteAddr = "10.0.0.1:5555"
				rq.Header.Set("X-Request-Id", "rid-1")
				rq.Header.Set("X-Forwarded-For", "203.0.113.7")
				rq.Header.Set("User-Agent", "client/1.0")
				ctx = mocrelay.VerifCtxWithRequest(ctx, rq)
			}
			k := sim.NewClient(ctx, fmt.Sprintf("c%d", i), cl.Script)
			cls = append(cls, k)
		}
		hasProm := false
		for _, m := range stack {
			if m.Kind == "prom" {
				hasProm = true
			}
		}
		gauge := func() {
			if hasProm {
				mwCheckMetrics(sim, c, cls, down, reg, stack)
			}
		}
		all := cls
		phase := func(from, to int) bool {
			cls = all[:to]
			for _, k := range all[from:to] {
				k.Serve(h)
			}
			for i := 0; i < 64; i++ {
				if s := sim.DriveAll(gauge); s != simrt.Quiescent {
					sim.Violate(c.Prop, "deadlock", nil, "scheduler status %d: %v", s, sim.S.ParkedNames())
					return false
				}
				done := true
				for _, k := range cls {
					if k.Paused() {
						done = false
						k.Resume()
						st.Fault("reader-stall")
					}
				}
				if done {
					break
				}
			}
			return true
		}
		if c.LateFrom > 0 && c.LateFrom < len(all) {
			if !phase(0, c.LateFrom) {
				return
			}
			gauge()
			for _, k := range cls {
				k.Cancel()
			}
			if s := sim.Drive(); s != simrt.Quiescent {
				sim.Violate(c.Prop, "deadlock", nil, "scheduler status %d: %v", s, sim.S.ParkedNames())
				return
			}
			gauge()
			st.Fault("reconnect-after-session-end")
			if !phase(c.LateFrom, len(all)) {
				return
			}
		} else if !phase(0, len(all)) {
			return
		}
		// progress: with every reader active nothing keeps a session from taking
		// its client's messages (a middleware that stops reading starves it)
		for ci, k := range all {
			if !k.ScriptDone.Load() && !down.sess[ci].crashed && k.CancelStamp == 0 && k.CloseStamp == 0 {
				sim.Violate(c.Prop, "session-stalled", nil, "%s: at quiescence (no reader stalled) the client has handed over %d of its %d script steps' messages and waits", k.Name, len(k.Sent), len(k.Script))
			}
		}
		gauge()
		mwJudge(sim, c, cls, down, stack)
		// end every session, then the gauges must be back
		for _, k := range cls {
			k.Cancel()
		}
		if s := sim.Drive(); s == simrt.Quiescent {
			gauge()
			st.Completed = true
		}
	})
}

func isRejection(m mocrelay.ServerMsg, req mocrelay.ClientMsg) bool {
	switch r := req.(type) {
	case *mocrelay.ClientEventMsg:
		ok, is := m.(*mocrelay.ServerOKMsg)
		return is && !ok.Accepted && ok.EventID == r.Event.ID
	case *mocrelay.ClientReqMsg:
		cl, is := m.(*mocrelay.ServerClosedMsg)
		return is && cl.SubscriptionID == r.SubscriptionID
	case *mocrelay.ClientCountMsg:
		cl, is := m.(*mocrelay.ServerClosedMsg)
		return is && cl.SubscriptionID == r.SubscriptionID
	}
	return false
}

// indexEmits (driver only) rebuilds the message index of every session from
// the emission records.
func (d *mwDownstream) indexEmits() {
	for _, s := range d.sess {
		s.byMsg = map[mocrelay.ServerMsg]*mwDownRec{}
		for _, r := range s.emits {
			s.byMsg[r.msg] = r
		}
	}
}

func mwJudge(sim *simrt.Sim, c *MwCase, cls []*simrt.Client, down *mwDownstream, stack []MwSpec) {
	down.indexEmits()
	for _, s := range down.sess {
		if s.crashed {
			sim.Res.Stats.Fault("handler-panic")
		}
	}
	st := &sim.Res.Stats
	prop := c.Prop
	nRej, nFwd, nMay, nDrop := 0, 0, 0, 0
	for ci, k := range cls {
		sess := down.sess[ci]
		states := make([]*mwState, len(stack))
		for i := range stack {
			states[i] = newMwState(&stack[i])
		}
		fwdIdx := map[mocrelay.ClientMsg]int{}
		for i, r := range sess.recvd {
			if _, dup := fwdIdx[r.msg]; !dup {
				fwdIdx[r.msg] = i
			}
		}
		// messages of the client that did not come from downstream, in order
		var own []simrt.Got
		var fromDown []simrt.Got
		for _, g := range k.Got {
			if sess.byMsg[g.Msg] != nil {
				fromDown = append(fromDown, g)
			} else {
				own = append(own, g)
			}
		}
		// ---- server side: every downstream emission the middleware took
		di := 0
		for _, r := range sess.emits {
			if r.done == 0 {
				continue
			}
			v := vPass
			for i := len(states) - 1; i >= 0 && v == vPass; i-- { // innermost first on the way out
				v = states[i].server(r.msg)
			}
			delivered := di < len(fromDown) && fromDown[di].Msg == r.msg
			if !delivered {
				// maybe delivered out of order?
				for _, g := range fromDown[min(di, len(fromDown)):] {
					if g.Msg == r.msg {
						sim.Violate(prop, "server-msg-reordered", nil, "%s: %s delivered out of emission order", k.Name, simrt.DescribeServer(r.msg))
					}
				}
			}
			switch {
			case delivered:
				di++
				if v == vReject {
					sim.Violate("C18", "duplicate-delivered", nil, "%s: %s delivered although the same event id is among the last %d distinct ids delivered on this connection", k.Name, simrt.DescribeServer(r.msg), stack[0].N)
				}
			case v == vPass:
				if k.CancelStamp == 0 && k.CloseStamp == 0 && !sess.crashed {
					sim.Violate(prop, "server-msg-lost", map[string]string{"type": r.msg.ServerMsgLabel()}, "%s: downstream emitted %s, it never reached the client (all readers drained)", k.Name, simrt.DescribeServer(r.msg))
				}
			default:
				nDrop++
			}
		}
		if di < len(fromDown) {
			sim.Violate(prop, "server-msg-unexpected", nil, "%s: received %s which downstream did not emit (or twice)", k.Name, simrt.DescribeServer(fromDown[di].Msg))
		}
		// ---- client side
		ownUsed := make([]bool, len(own))
		// rejections produced by different middlewares of a stack travel on
		// different paths and may overtake each other: match them as a multiset
		takeRejection := func(req mocrelay.ClientMsg) (simrt.Got, bool) {
			for i := range own {
				if !ownUsed[i] && isRejection(own[i].Msg, req) {
					ownUsed[i] = true
					return own[i], true
				}
			}
			return simrt.Got{}, false
		}
		lastFwd := -1
		openDown := map[string]bool{}
		for _, s := range k.Sent {
			if s.Accepted == 0 {
				continue
			}
			// interval of simulated time in which it was processed
			t0, t1 := s.InvokeT, s.InvokeT
			fi, fwd := fwdIdx[s.Msg]
			var rej simrt.Got
			rejected := false
			if fwd {
				t1 = sess.recvd[fi].t
			} else if rej, rejected = takeRejection(s.Msg); rejected {
				t1 = rej.T
			}
			if t1.Before(t0) {
				t1 = t0
			}
			v := vPass
			for i := 0; i < len(states) && v == vPass; i++ {
				v = states[i].client(s.Msg, t0, t1)
				if v == vMay {
					// the rest of the stack still sees it if this one lets it pass;
					// state of later ones is updated only when actually forwarded
					if fwd {
						for j := i + 1; j < len(states); j++ {
							states[j].client(s.Msg, t0, t1)
						}
					}
					break
				}
			}
			desc := fmt.Sprintf("%s message #%d %s", k.Name, s.Idx, s.Msg.ClientMsgLabel())
			switch {
			case fwd && rejected:
				sim.Violate(prop, "forwarded-and-rejected", nil, "%s both forwarded and answered with a rejection", desc)
			case fwd:
				nFwd++
				if v == vReject {
					cls, p := "limit-not-enforced", prop
					if hasKind(stack, "maxsubs", "recvunique") && prop == "C18" {
						cls = "stateful-limit-not-enforced"
					}
					sim.Violate(p, cls, map[string]string{"type": s.Msg.ClientMsgLabel()}, "%s was forwarded although the configured stack %s must reject it", desc, stackDesc(stack))
				}
				if fi < lastFwd {
					sim.Violate(prop, "client-msg-reordered", nil, "%s reached downstream out of order", desc)
				}
				lastFwd = fi
			case rejected:
				nRej++
				if v == vPass {
					sim.Violate(prop, "wrongly-rejected", map[string]string{"type": s.Msg.ClientMsgLabel()}, "%s respects every limit of %s but was answered with %s and not forwarded", desc, stackDesc(stack), simrt.DescribeServer(rej.Msg))
				}
			default:
				if k.CancelStamp == 0 && k.CloseStamp == 0 && !sess.crashed {
					sim.Violate(prop, "client-msg-vanished", map[string]string{"type": s.Msg.ClientMsgLabel()}, "%s was neither forwarded nor answered with the rejection for its type", desc)
				}
			}
			if v == vMay {
				nMay++
			}
			// quota invariant on what downstream has seen
			if fwd {
				switch x := s.Msg.(type) {
				case *mocrelay.ClientReqMsg:
					openDown[x.SubscriptionID] = true
				case *mocrelay.ClientCloseMsg:
					delete(openDown, x.SubscriptionID)
				}
				for _, m := range stack {
					if m.Kind == "maxsubs" && len(openDown) > m.N {
						sim.Violate("C18", "quota-exceeded", nil, "%s: %d distinct subscription ids open downstream with a quota of %d", k.Name, len(openDown), m.N)
					}
				}
			}
		}
		for i := range own {
			if !ownUsed[i] {
				sim.Violate(prop, "unsolicited-reply", nil, "%s: received %s which is neither from downstream nor the rejection of one of its messages", k.Name, simrt.DescribeServer(own[i].Msg))
			}
		}
		for _, r := range sess.recvd {
			found := false
			for _, s := range k.Sent {
				if s.Msg == r.msg {
					found = true
				}
			}
			if !found {
				sim.Violate(prop, "altered-client-msg", nil, "%s: downstream received a %s object the client never sent (messages must pass unchanged)", k.Name, r.msg.ClientMsgLabel())
			}
		}
		seen := map[mocrelay.ClientMsg]bool{}
		for _, r := range sess.recvd {
			if seen[r.msg] {
				sim.Violate(prop, "forwarded-twice", nil, "%s: a %s reached downstream twice", k.Name, r.msg.ClientMsgLabel())
			}
			seen[r.msg] = true
		}
	}
	if nRej > 0 {
		st.Probe("rejections")
	}
	if nMay > 0 {
		st.Probe("boundary_or_window_may")
	}
	if nDrop > 0 {
		st.Probe("send_side_dropped")
	}
	h := fnv.New64a()
	fmt.Fprintf(h, "%s|%d|%d|%d", stackDesc(stack), nRej, nFwd, nDrop)
	st.State(h.Sum64())
	st.NonTrivial = nFwd+nRej >= 2 && (nRej > 0 || len(cls) > 1 || nDrop > 0)
}

func hasKind(stack []MwSpec, kinds ...string) bool {
	for _, m := range stack {
		for _, k := range kinds {
			if m.Kind == k {
				return true
			}
		}
	}
	return false
}

func stackDesc(stack []MwSpec) string {
	var p []string
	for _, m := range stack {
		switch m.Kind {
		case "createdat":
			p = append(p, fmt.Sprintf("createdat[%d,%d]", m.From, m.To))
		case "allow", "deny":
			fj, _ := json.Marshal(m.Filter)
			if m.Filter2 != nil {
				fj, _ = json.Marshal([]*simrt.FilterSpec{m.Filter, m.Filter2})
			}
			p = append(p, m.Kind+string(fj))
		case "logging", "prom":
			p = append(p, m.Kind)
		default:
			p = append(p, fmt.Sprintf("%s(%d)", m.Kind, m.N))
		}
	}
	return "[" + strings.Join(p, " > ") + "]"
}

// ---------------------------------------------------------------- C19

func mwGather(reg *prometheus.Registry) (map[string]float64, error) {
	mfs, err := reg.Gather()
	if err != nil {
		return nil, err
	}
	out := map[string]float64{}
	for _, mf := range mfs {
		for _, m := range mf.GetMetric() {
			var lab []string
			for _, l := range m.GetLabel() {
				lab = append(lab, l.GetName()+"="+l.GetValue())
			}
			sort.Strings(lab)
			key := mf.GetName() + "{" + strings.Join(lab, ",") + "}"
			switch {
			case m.Gauge != nil:
				out[key] = m.GetGauge().GetValue()
			case m.Counter != nil:
				out[key] = m.GetCounter().GetValue()
			}
		}
	}
	return out, nil
}

// crossing event of the subscription gauge for one (session, id)
type gEv struct {
	open       bool // REQ opens, CLOSE/CLOSED end
	start, end int64
	side       int // 0 client side, 1 server side
}

// possibleOpen enumerates the linearizations of evs (per-side order fixed;
// across sides a precedes b only if a.end < b.start) and returns which final
// states (open / not open) are reachable.
func possibleOpen(evs []gEv) (canOpen, canClosed bool) {
	var a, b []gEv
	for _, e := range evs {
		if e.side == 0 {
			a = append(a, e)
		} else {
			b = append(b, e)
		}
	}
	var rec func(i, j int, open bool)
	rec = func(i, j int, open bool) {
		if i == len(a) && j == len(b) {
			if open {
				canOpen = true
			} else {
				canClosed = true
			}
			return
		}
		if i < len(a) && !(j < len(b) && b[j].end < a[i].start) {
			rec(i+1, j, a[i].open)
		}
		if j < len(b) && !(i < len(a) && a[i].end < b[j].start) {
			o := open
			if !b[j].open {
				o = false
			}
			rec(i, j+1, o)
		}
	}
	rec(0, 0, false)
	return
}

func mwCheckMetrics(sim *simrt.Sim, c *MwCase, cls []*simrt.Client, down *mwDownstream, reg *prometheus.Registry, stack []MwSpec) {
	st := &sim.Res.Stats
	st.Probe("gauge_checks")
	down.indexEmits()
	got, err := mwGather(reg)
	if err != nil {
		sim.Violate("C19", "gather-error", nil, "Gather: %v", err)
		return
	}
	// which middlewares sit outside / inside the prometheus one decides what
	// crosses it; the generator only puts deterministic limit middlewares there
	pi := 0
	for i, m := range stack {
		if m.Kind == "prom" {
			pi = i
		}
	}
	outer := stack[:pi]
	inner := stack[pi+1:]
	anyPaused := false
	for _, k := range cls {
		if k.Paused() {
			anyPaused = true
		}
	}
	live := 0
	wantRecv := map[string]float64{}
	wantKind := map[string]float64{}
	wantSend := map[string]float64{}
	minSubs, maxSubs := 0, 0
	for ci, k := range cls {
		if !k.Returned.Load() {
			live++
		}
		sess := down.sess[ci]
		ostates := make([]*mwState, len(outer))
		for i := range outer {
			ostates[i] = newMwState(&outer[i])
		}
		istates := make([]*mwState, len(inner))
		for i := range inner {
			istates[i] = newMwState(&inner[i])
		}
		perID := map[string][]gEv{}
		usedGot := map[int]bool{}
		for _, s := range k.Sent {
			if s.Accepted == 0 {
				continue
			}
			v := vPass
			for i := 0; i < len(ostates) && v == vPass; i++ {
				v = ostates[i].client(s.Msg, s.InvokeT, s.InvokeT)
			}
			if v == vReject {
				// its rejection (from a middleware outside the metrics one) is not ours to match below
				for gi, g := range k.Got {
					if !usedGot[gi] && sess.byMsg[g.Msg] == nil && isRejection(g.Msg, s.Msg) {
						usedGot[gi] = true
						break
					}
				}
			}
			if v != vPass {
				continue // rejected before it reached the metrics middleware
			}
			// the message crossed the metrics middleware unless it is still waiting
			// in front of it (only possible while its session is being torn down)
			wantRecv[s.Msg.ClientMsgLabel()]++
			if e, ok := s.Msg.(*mocrelay.ClientEventMsg); ok {
				wantKind[fmt.Sprint(e.Event.Kind)]++
			}
			end := inf
			for _, r := range sess.recvd {
				if r.msg == s.Msg {
					end = r.stamp
				}
			}
			// a middleware inside the metrics one may reject it: the rejection then
			// crosses the metrics middleware on its way out
			vi := vPass
			for i := 0; i < len(istates) && vi == vPass; i++ {
				vi = istates[i].client(s.Msg, s.InvokeT, s.InvokeT)
			}
			rejEnd := inf
			if vi == vReject {
				for gi, g := range k.Got {
					if !usedGot[gi] && sess.byMsg[g.Msg] == nil && isRejection(g.Msg, s.Msg) {
						usedGot[gi] = true
						rejEnd = g.Stamp
						break
					}
				}
				switch s.Msg.(type) {
				case *mocrelay.ClientEventMsg:
					wantSend["OK"]++
				default:
					wantSend["CLOSED"]++
				}
				end = rejEnd
			}
			switch x := s.Msg.(type) {
			case *mocrelay.ClientReqMsg:
				perID[x.SubscriptionID] = append(perID[x.SubscriptionID], gEv{open: true, start: s.Accepted, end: end, side: 0})
				if vi == vReject {
					perID[x.SubscriptionID] = append(perID[x.SubscriptionID], gEv{open: false, start: s.Accepted, end: rejEnd, side: 1})
				}
			case *mocrelay.ClientCountMsg:
				if vi == vReject {
					perID[x.SubscriptionID] = append(perID[x.SubscriptionID], gEv{open: false, start: s.Accepted, end: rejEnd, side: 1})
				}
			case *mocrelay.ClientCloseMsg:
				perID[x.SubscriptionID] = append(perID[x.SubscriptionID], gEv{open: false, start: s.Accepted, end: end, side: 0})
			}
		}
		for _, r := range sess.emits {
			if r.done == 0 {
				continue
			}
			wantSend[r.msg.ServerMsgLabel()]++
			if x, ok := r.msg.(*mocrelay.ServerClosedMsg); ok {
				end := inf
				for _, g := range k.Got {
					if g.Msg == r.msg {
						end = g.Stamp
					}
				}
				perID[x.SubscriptionID] = append(perID[x.SubscriptionID], gEv{open: false, start: r.done, end: end, side: 1})
			}
		}
		if k.Returned.Load() {
			continue // session over: contributes nothing to the gauge
		}
		for id, evs := range perID {
			co, cc := possibleOpen(evs)
			if co {
				maxSubs++
			}
			if co && !cc {
				minSubs++
			}
			if co && cc {
				st.Probe("close_racing_closed_or_req:" + fmt.Sprint(len(id) > 0))
			}
		}
	}
	if v := got["mocrelay_connection_count{}"]; int(v) != live {
		sim.Violate("C19", "connection-gauge", nil, "connection gauge is %v with %d live sessions", v, live)
	}
	if anyPaused {
		return // messages may be waiting in front of the middleware: only the connection gauge is exact here
	}
	if v := int(got["mocrelay_req_count{}"]); v < minSubs || v > maxSubs {
		sim.Violate("C19", "subscription-gauge", nil, "subscription gauge is %d; the histories allow %d..%d open subscriptions", v, minSubs, maxSubs)
	}
	// counters: quiescent, so everything that entered the middleware was counted.
	// Messages of sessions that are being torn down may be counted or not.
	tearing := false
	for ci, k := range cls {
		if k.CancelStamp != 0 || k.CloseStamp != 0 || k.Ctx.Err() != nil || down.sess[ci].crashed {
			tearing = true
		}
	}
	if !tearing {
		for typ, w := range wantRecv {
			if g := got["mocrelay_recv_msg_total{type="+typ+"}"]; g != w {
				sim.Violate("C19", "recv-counter", map[string]string{"type": typ}, "recv counter for %s is %v, %v messages of that type crossed the middleware", typ, g, w)
			}
		}
		for kd, w := range wantKind {
			if g := got["mocrelay_recv_event_total{kind="+kd+"}"]; g != w {
				sim.Violate("C19", "event-kind-counter", nil, "event counter for kind %s is %v, %v events of that kind crossed", kd, g, w)
			}
		}
		for typ, w := range wantSend {
			if g := got["mocrelay_send_msg_total{type="+typ+"}"]; g != w {
				sim.Violate("C19", "send-counter", map[string]string{"type": typ}, "send counter for %s is %v, %v messages of that type crossed the middleware", typ, g, w)
			}
		}
		for key, g := range got {
			if strings.HasPrefix(key, "mocrelay_recv_msg_total{type=") {
				typ := strings.TrimSuffix(strings.TrimPrefix(key, "mocrelay_recv_msg_total{type="), "}")
				if wantRecv[typ] != g {
					sim.Violate("C19", "recv-counter", map[string]string{"type": typ}, "recv counter for %s is %v, %v messages of that type crossed the middleware", typ, g, wantRecv[typ])
				}
			}
			if strings.HasPrefix(key, "mocrelay_send_msg_total{type=") {
				typ := strings.TrimSuffix(strings.TrimPrefix(key, "mocrelay_send_msg_total{type="), "}")
				if wantSend[typ] != g {
					sim.Violate("C19", "send-counter", map[string]string{"type": typ}, "send counter for %s is %v, %v messages of that type crossed the middleware", typ, g, wantSend[typ])
				}
			}
		}
	}
}
