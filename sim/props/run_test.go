package props

import (
	"path/filepath"
	"os/exec"
	"encoding/json"
	"flag"
	"fmt"
	"os"
	"runtime"
	"strconv"
	"testing"
	"time"

	"pgregory.net/rapid"
	"verif.local/sim/simrt"
)

var (
	fProp    = flag.String("verif.prop", "", "property id")
	fTier    = flag.String("verif.tier", "quick", "quick|thorough")
	fBudget  = flag.Duration("verif.budget", 10*time.Second, "wall-clock budget of this worker")
	fWorker  = flag.Int("verif.worker", 0, "worker index")
	fSeed    = flag.Uint64("verif.seed", 1, "VERIF_SEED")
	fOut     = flag.String("verif.out", "", "worker result file")
	fReplay  = flag.String("verif.replay", "", "replay file: execute that one case")
	fKnown   = flag.String("verif.known", "", "known_findings.json")
	fCur     = flag.String("verif.cur", "", "file that always holds the case being executed")
	fMaxRuns = flag.Int64("verif.maxruns", 0, "stop after this many runs (0: budget only)")
	fDet     = flag.Int("verif.det", 0, "record result hashes of the first N runs")
	fEngine  = flag.String("verif.engine", "", "run this engine instead of the one that serves the property (race phase)")
	fRace    = flag.Bool("verif.race", false, "race-detector configuration of the engine (binary built with -race)")
	fDump    = flag.String("verif.dumpcase", "", "debug: write the case with this hash as a replay file to dumpcase.json")
)

// capTB lets rapid.Check report into us instead of failing the go test.
type capTB struct {
	failed bool
	msgs   []string
}

func (c *capTB) Helper()                  {}
func (c *capTB) Name() string             { return "verif" }
func (c *capTB) Logf(f string, a ...any)  {}
func (c *capTB) Log(a ...any)             {}
func (c *capTB) Skipf(f string, a ...any) {}
func (c *capTB) Skip(a ...any)            {}
func (c *capTB) SkipNow()                 {}
func (c *capTB) Errorf(f string, a ...any) {
	c.failed = true
	c.msgs = append(c.msgs, fmt.Sprintf(f, a...))
}
func (c *capTB) Error(a ...any)            { c.failed = true; c.msgs = append(c.msgs, fmt.Sprint(a...)) }
func (c *capTB) Fatalf(f string, a ...any) { c.Errorf(f, a...) }
func (c *capTB) Fatal(a ...any)            { c.Error(a...) }
func (c *capTB) FailNow()                  { c.failed = true }
func (c *capTB) Fail()                     { c.failed = true }
func (c *capTB) Failed() bool              { return c.failed }

func splitmix(x uint64) uint64 {
	x += 0x9E3779B97F4A7C15
	x = (x ^ (x >> 30)) * 0xBF58476D1CE4E5B9
	x = (x ^ (x >> 27)) * 0x94D049BB133111EB
	return x ^ (x >> 31)
}

func loadKnown(path string) []Known {
	if path == "" {
		return nil
	}
	b, err := os.ReadFile(path)
	if err != nil {
		return nil
	}
	var f struct {
		Findings []Known `json:"findings"`
	}
	if err := json.Unmarshal(b, &f); err != nil {
		fmt.Fprintln(os.Stderr, "verif: cannot parse known findings:", err)
		os.Exit(2)
	}
	return f.Findings
}

func TestProp(t *testing.T) {
	if *fProp == "" {
		t.Skip("no -verif.prop")
	}
	engName, ok := Serves[*fProp]
	if *fEngine != "" {
		engName = *fEngine
		_, ok = Engines[engName]
	}
	if !ok {
		fmt.Fprintf(os.Stderr, "verif: no engine serves %s\n", *fProp)
		os.Exit(2)
	}
	eng := Engines[engName]
	known := loadKnown(*fKnown)
	RaceMode = *fRace
	simrt.CurrentProperty = *fProp

	if *fReplay != "" {
		b, err := os.ReadFile(*fReplay)
		if err != nil {
			fmt.Fprintln(os.Stderr, "verif:", err)
			os.Exit(2)
		}
		var rf ReplayFile
		if err := json.Unmarshal(b, &rf); err != nil {
			fmt.Fprintln(os.Stderr, "verif: bad replay file:", err)
			os.Exit(2)
		}
		c, err := eng.Decode(rf.Case)
		if err != nil {
			fmt.Fprintln(os.Stderr, "verif: bad case in replay file:", err)
			os.Exit(2)
		}
		res := eng.Exec(t, c)
		out, _ := json.MarshalIndent(res, "", " ")
		if *fOut != "" {
			os.WriteFile(*fOut, out, 0o644)
		} else {
			fmt.Println(string(out))
		}
		return
	}

	a := newAcc(*fProp, engName, *fWorker)
	start := time.Now()
	deadline := start.Add(*fBudget)
	base := splitmix(*fSeed*1000003 + uint64(*fWorker))
	if base == 0 {
		base = 1
	}
	a.out.SeedFirst = base
	if *fDet > 0 {
		a.out.TraceHashes = map[string]uint64{}
	}
	flag.Set("rapid.nofailfile", "true")
	shrink := "30s"
	if *fTier == "thorough" {
		shrink = "4m"
	}
	if v := os.Getenv("VERIF_SHRINK"); v != "" {
		shrink = v
	}
	flag.Set("rapid.shrinktime", shrink)
	// slow engines (real SQLite, WebSocket sessions, fault enumeration): fewer
	// runs per rapid.Check call so that the wall-clock budget is honoured
	checks := map[string]string{"C06": "10", "C14": "4", "C16": "20", "C12": "10", "C13": "10"}[*fProp]
	if checks == "" {
		checks = "50"
	}
	flag.Set("rapid.checks", checks)

	var failClass string
	var lastFail *ReplayFile
	var firstFail *ReplayFile // the failing case as found (confirmed in a fresh process), before minimisation
	clean := false // once a failure is being confirmed / minimised every execution starts from a clean process state
	stop := false
	// rapid's own shrink deadline is only checked between coarse steps; bound
	// the minimisation ourselves: past this deadline every further candidate
	// "passes" at once and the smallest failing case seen so far is kept
	shrinkFor, _ := time.ParseDuration(shrink)
	var shrinkUntil time.Time

	prop := func(rt *rapid.T) {
		if stop {
			return
		}
		if failClass != "" && time.Now().After(shrinkUntil) {
			return
		}
		c := eng.Gen(rt, *fTier)
		cj, err := json.Marshal(c)
		if err != nil {
			panic(err)
		}
		if *fCur != "" {
			os.WriteFile(*fCur, cj, 0o644)
		}
		if *fDump != "" && strconv.FormatUint(hashBytes(cj), 16) == *fDump {
			rf, _ := json.Marshal(&ReplayFile{Property: *fProp, Engine: engName, Case: cj})
			os.WriteFile("dumpcase.json", rf, 0o644)
		}
		if clean {
			cleanProcessState()
		}
		res := eng.Exec(t, c)
		if *fDump != "" && strconv.FormatUint(hashBytes(cj), 16) == *fDump {
			rj, _ := json.MarshalIndent(res, "", " ")
			os.WriteFile("dumpres.json", rj, 0o644)
		}
		if failClass == "" { // exploring (not shrinking): account
			a.add(cj, res)
			if *fDet > 0 && len(a.out.TraceHashes) < *fDet {
				a.out.TraceHashes[strconv.FormatUint(hashBytes(cj), 16)] = ResultHash(res)
				if os.Getenv("VERIF_DET_DIGEST") != "" {
					if a.out.TraceDigests == nil {
						a.out.TraceDigests = map[string]string{}
					}
					a.out.TraceDigests[strconv.FormatUint(hashBytes(cj), 16)] = ResultDigest(res)
				}
			}
		}
		if res.Harness != "" {
			if failClass == "" && len(a.out.Harness) < 5 {
				a.out.Harness = append(a.out.Harness, res.Harness)
				if len(a.out.Harness) == 1 {
					a.out.Failure = &ReplayFile{Property: *fProp, Engine: engName, Case: cj, Trace: res.Trace}
				}
			}
			return
		}
		for _, v := range res.Violations {
			if v.Property != *fProp {
				if failClass == "" {
					a.out.OtherProps[v.Key()]++
				}
				continue
			}
			isKnown := false
			for i := range known {
				if known[i].Matches(v) {
					isKnown = true
					if failClass == "" {
						a.out.KnownHits[known[i].What]++
					}
					break
				}
			}
			if isKnown {
				continue
			}
			if failClass != "" && v.Key() != failClass {
				continue // shrinking must keep the class
			}
			if failClass == "" && !clean {
				// the process has executed many cases: does this one also fail from
				// the state a fresh process starts in (a replay must)?
				clean = true
				cleanProcessState()
				again := false
				for _, v2 := range eng.Exec(t, c).Violations {
					if v2.Key() == v.Key() {
						again = true
					}
				}
				// ... and in a process that has executed nothing else (state that
				// only a fresh process lacks: package-level caches of a changed tree)
				if again && !RaceMode {
					vv := v
					again = freshProcessConfirms(&ReplayFile{Property: *fProp, Engine: engName, Case: cj, Expect: &vv}, engName)
				}
				if !again {
					clean = false
					a.out.Unconfirmed++
					return
				}
			}
			vv := v
			lastFail = &ReplayFile{Property: *fProp, Engine: engName, Case: cj, Expect: &vv, Trace: res.Trace}
			if failClass == "" {
				failClass = v.Key()
				shrinkUntil = time.Now().Add(shrinkFor)
				firstFail = lastFail
			}
			rt.Fatalf("VIOLATION %s: %s", v.Key(), v.Msg)
		}
	}

	for iter := uint64(0); time.Now().Before(deadline) && !stop; iter++ {
		seed := base + iter*7919
		a.out.SeedLast = seed
		flag.Set("rapid.seed", strconv.FormatUint(seed, 10))
		tb := &capTB{}
		rapid.Check(tb, prop)
		if tb.failed && lastFail != nil {
			if firstFail != nil && lastFail != firstFail && !RaceMode && !freshProcessConfirms(lastFail, engName) {
				// minimisation inside this process leaned on state a fresh process
				// lacks: report the case as it was found
				lastFail = firstFail
			}
			lastFail.Seed = seed
			a.out.Failure = lastFail
			break
		}
		if tb.failed {
			// rapid itself is unhappy (e.g. generator trouble): machinery problem
			a.out.Harness = append(a.out.Harness, fmt.Sprintf("rapid: %v", tb.msgs))
			break
		}
		if len(a.out.Harness) > 0 {
			break
		}
		if *fMaxRuns > 0 && a.out.Runs >= *fMaxRuns {
			break
		}
	}
	if *fOut != "" {
		if err := a.finish(*fOut, time.Since(start)); err != nil {
			fmt.Fprintln(os.Stderr, "verif:", err)
			os.Exit(2)
		}
	}
}

// freshProcessConfirms executes the case alone in a new process of this test
// binary and says whether the same violation (property, class) shows there.
func freshProcessConfirms(rf *ReplayFile, engName string) bool {
	dir, err := os.MkdirTemp("", "verif-confirm-")
	if err != nil {
		return true // cannot tell: leave the decision to the orchestrator's replays
	}
	defer os.RemoveAll(dir)
	b, _ := json.Marshal(rf)
	in, out := filepath.Join(dir, "case.json"), filepath.Join(dir, "res.json")
	if os.WriteFile(in, b, 0o644) != nil {
		return true
	}
	cmd := exec.Command(os.Args[0], "-test.run", "TestProp", "-test.cpu", "1", "-test.timeout", "5m",
		"-verif.prop="+rf.Property, "-verif.engine="+engName, "-verif.replay="+in, "-verif.out="+out)
	cmd.Env = os.Environ()
	if err := cmd.Run(); err != nil {
		// a crash of the system under test in the fresh process reproduces a crash class only
		return rf.Expect != nil && rf.Expect.Class == "crash"
	}
	rb, err := os.ReadFile(out)
	if err != nil {
		return false
	}
	var res simrt.Result
	if json.Unmarshal(rb, &res) != nil {
		return false
	}
	for _, v := range res.Violations {
		if rf.Expect != nil && v.Property == rf.Expect.Property && v.Class == rf.Expect.Class {
			return true
		}
	}
	return false
}

// cleanProcessState empties what earlier cases may have left in process-global
// state that the code under test can reach: two collections empty every
// sync.Pool (primary and victim cache).
func cleanProcessState() {
	runtime.GC()
	runtime.GC()
}

var _ = simrt.Quiescent
