package props

import (
	"math"
	"context"
	"database/sql"
	"encoding/json"
	"fmt"
	"hash/fnv"
	"io"
	"os"
	"path/filepath"
	"sort"
	"testing"
	"time"

	"github.com/high-moctane/mocrelay"
	mocsqlite "github.com/high-moctane/mocrelay/handler/sqlite"
	"pgregory.net/rapid"
	"verif.local/sim/ref"
	"verif.local/sim/simrt"
)

// ---------------------------------------------------------------- specification of the SQLite store (C06)

type sqlSpec struct {
	inserted []*mocrelay.Event // distinct ids, non-ephemeral, in arrival order
	byID     map[string]*mocrelay.Event
	dels     []*mocrelay.Event
}

func newSQLSpec() *sqlSpec { return &sqlSpec{byID: map[string]*mocrelay.Event{}} }

func (s *sqlSpec) add(evs []*mocrelay.Event) {
	for _, e := range evs {
		if ref.ClassOf(e.Kind) == ref.Ephemeral || s.byID[e.ID] != nil {
			continue
		}
		s.byID[e.ID] = e
		s.inserted = append(s.inserted, e)
		if e.Kind == 5 {
			s.dels = append(s.dels, e)
		}
	}
}

func (s *sqlSpec) deleted(e *mocrelay.Event) refKind {
	best := refNone
	for _, d := range s.dels {
		switch delRefs(d, e) {
		case refStrict:
			return refStrict
		case refMay:
			best = refMay
		}
	}
	return best
}

// checkStored judges the answer to the match-everything query against the
// statement: every non-ephemeral inserted event, newest per address (ties
// either way), minus deleted ones; each identical to what was inserted.
func (s *sqlSpec) checkStored(R []*mocrelay.Event) []cacheFinding {
	var out []cacheFinding
	seen := map[string]bool{}
	groups := map[string][]*mocrelay.Event{}
	for _, e := range s.inserted {
		if a, ok := ref.Address(e); ok {
			groups[a] = append(groups[a], e)
		}
	}
	newest := func(g []*mocrelay.Event) (tie []*mocrelay.Event) {
		mx := int64(math.MinInt64)
		for _, e := range g {
			if e.CreatedAt > mx {
				mx = e.CreatedAt
			}
		}
		for _, e := range g {
			if e.CreatedAt == mx {
				tie = append(tie, e)
			}
		}
		return
	}
	visibleInGroup := map[string]int{}
	for i, e := range R {
		if seen[e.ID] {
			out = append(out, cacheFinding{"C06", "duplicate-in-answer", nil, "match-everything lists " + ref.Short(e.ID) + " twice"})
		}
		seen[e.ID] = true
		if i > 0 && R[i-1].CreatedAt < e.CreatedAt {
			out = append(out, cacheFinding{"C06", "answer-order", nil, "match-everything answer not in non-increasing created_at order"})
		}
		orig := s.byID[e.ID]
		if orig == nil {
			out = append(out, cacheFinding{"C06", "unknown-event", nil, "store returns " + ref.Short(e.ID) + " which was never inserted (or is ephemeral)"})
			continue
		}
		if !ref.EqualEvent(orig, e) {
			oj, _ := json.Marshal(orig)
			ej, _ := json.Marshal(e)
			out = append(out, cacheFinding{"C06", "event-altered", nil, fmt.Sprintf("stored event differs from the inserted one: inserted %s, returned %s", oj, ej)})
		}
		if s.deleted(orig) == refStrict {
			out = append(out, cacheFinding{"C06", "deleted-event-served", map[string]string{"by": delTagShape(s, orig)}, fmt.Sprintf("%s is served although a deletion request of its author references it", ref.Short(e.ID))})
		}
		a, ok := ref.Address(orig)
		if !ok {
			continue // addressable without d tag: not constrained
		}
		visibleInGroup[a]++
		isNewest := false
		for _, t := range newest(groups[a]) {
			if t.ID == e.ID {
				isNewest = true
			}
		}
		if !isNewest {
			out = append(out, cacheFinding{"C06", "old-version-served", nil, fmt.Sprintf("%s (created_at %d) is served although a newer version of %s was inserted", ref.Short(e.ID), e.CreatedAt, a)})
		}
	}
	for a, g := range groups {
		if visibleInGroup[a] > 1 {
			out = append(out, cacheFinding{"C06", "two-versions", nil, "two versions of " + a + " served"})
		}
		if visibleInGroup[a] == 0 {
			// allowed only if some newest candidate is (possibly) deleted
			ok := false
			for _, t := range newest(g) {
				if s.deleted(t) != refNone {
					ok = true
				}
			}
			if !ok {
				t := newest(g)[0]
				out = append(out, cacheFinding{"C06", "stored-event-missing", map[string]string{"class": className(t)}, fmt.Sprintf("%s (kind %d, the newest version of %s) was inserted and not deleted but is not served", ref.Short(t.ID), t.Kind, a)})
			}
		}
	}
	return out
}

func className(e *mocrelay.Event) string {
	return []string{"regular", "replaceable", "ephemeral", "addressable"}[ref.ClassOf(e.Kind)]
}

func delTagShape(s *sqlSpec, t *mocrelay.Event) string {
	for _, d := range s.dels {
		if delRefs(d, t) == refStrict {
			return refTagOf(d, t)
		}
	}
	return "?"
}

// ---------------------------------------------------------------- database helper

type sqlDB struct {
	db   *sql.DB
	seed uint32
	dir  string
	dsn  string
}

var memDBCounter int

var smallPages bool // set by the disk-full sub-test only

func openSQL(sim *simrt.Sim, dir, journal string, memory bool, maxConns int, seed uint32) (*sqlDB, error) {
	var dsn string
	if memory {
		memDBCounter++
		dsn = fmt.Sprintf("file:verifmem%d_%d?mode=memory&cache=shared", os.Getpid(), memDBCounter)
	} else {
		dsn = "file:" + filepath.Join(dir, "relay.db") + "?_journal_mode=" + journal + "&_busy_timeout=20000" // real milliseconds inside SQLite: long enough never to expire under load
	}
	db, err := sql.Open("verif-sqlite3", dsn)
	if err != nil {
		return nil, err
	}
	db.SetMaxOpenConns(maxConns)
	if smallPages {
		// must precede the creation of the first table
		if _, err := db.Exec("pragma page_size = 512"); err != nil {
			return nil, err
		}
	}
	if memory {
		db.SetMaxIdleConns(maxConns) // keep the shared in-memory database alive
		db.SetConnMaxLifetime(0)
	}
	ctx := context.Background()
	if err := mocsqlite.Migrate(ctx, db); err != nil {
		return nil, fmt.Errorf("migrate: %w", err)
	}
	// the xxhash seed row is created from the run seed (the code's own load path
	// then uses it); on reopen the row is already there. With seed 0 the row is
	// left to the code's own creation path (math/rand, deterministic in simulator
	// processes through GODEBUG=randautoseed=0).
	if seed != 0 {
		if _, err := db.ExecContext(ctx, "insert or ignore into xxhash_seed (seed) select ? where not exists (select 1 from xxhash_seed)", seed); err != nil {
			return nil, fmt.Errorf("seed row: %w", err)
		}
	}
	got, err := mocsqlite.VerifSetOrLoadSeed(ctx, db)
	if err != nil {
		return nil, fmt.Errorf("load seed: %w", err)
	}
	return &sqlDB{db: db, seed: got, dir: dir, dsn: dsn}, nil
}

func (d *sqlDB) query(fs []*mocrelay.ReqFilter) ([]*mocrelay.Event, error) {
	return mocsqlite.VerifQueryEvent(context.Background(), d.db, d.seed, fs, mocsqlite.NoLimit)
}

func (d *sqlDB) insert(ctx context.Context, evs []*mocrelay.Event) error {
	return mocsqlite.VerifInsertEvents(ctx, d.db, d.seed, evs)
}

// ---------------------------------------------------------------- engine C06

type sqlBatch struct {
	Evs     []int                `json:"evs"`
	Queries [][]simrt.FilterSpec `json:"queries"`
}

type SQLCase struct {
	Events     []cacheEv      `json:"events"`
	Batches    []sqlBatch     `json:"batches"`
	Mode       string         `json:"mode"` // direct | handler
	BulkNum    int            `json:"bulk_num,omitempty"`
	Sessions   int            `json:"sessions,omitempty"`
	Memory     bool           `json:"memory"`
	Journal    string         `json:"journal"`
	MaxConns   int            `json:"max_conns"`
	Seed       uint32         `json:"xxhash_seed"`
	AvoidKnown bool           `json:"avoid_known,omitempty"`
	Sched      simrt.Schedule `json:"sched"`
}

type sqlEngine struct{}

func init() { register("sqlite-store", sqlEngine{}, "C06") }

func (sqlEngine) Decode(b []byte) (any, error) {
	var c SQLCase
	err := json.Unmarshal(b, &c)
	return &c, err
}

var unicodeContents = []string{"plain", "<a href=\"x\">&amp;</a>", "line\nbreak\ttab", "   separators", "emoji \U0001F600 astral", "quote\" back\\slash", "nul-free \u0001\u001f controls", "日本語 テキスト", "literal \\u2028 \\\\u2029 \\u0026", ""}

func genSQLEvents(t *rapid.T, avoid bool) []cacheEv {
	cc := &CacheCase{}
	nev := rapid.IntRange(2, 10).Draw(t, "nev")
	genCacheEvents(t, cc, nev)
	for i := range cc.Events {
		cc.Events[i].Content = rapid.SampledFrom(unicodeContents).Draw(t, "content") + fmt.Sprintf("#%d", i)
		if rapid.IntRange(0, 5).Draw(t, "unitag") == 0 {
			cc.Events[i].Tags = append(cc.Events[i].Tags, []string{"t", rapid.SampledFrom(unicodeContents).Draw(t, "tagval"), "third", "fourth"})
		}
		if rapid.IntRange(0, 7).Draw(t, "uppertag") == 0 {
			cc.Events[i].Tags = append(cc.Events[i].Tags, []string{"T", "x"})
		}
		if avoid {
			for j := range cc.Events[i].Refs {
				cc.Events[i].Refs[j].Extra = false
			}
		}
	}
	return cc.Events
}

func (sqlEngine) Gen(t *rapid.T, tier string) any {
	c := &SQLCase{}
	c.AvoidKnown = rapid.IntRange(0, 9).Draw(t, "avoid") < 0
	c.Events = genSQLEvents(t, c.AvoidKnown)
	evs := (&CacheCase{Events: c.Events}).build()
	c.Mode = rapid.SampledFrom([]string{"direct", "direct", "handler"}).Draw(t, "mode")
	c.Memory = rapid.IntRange(0, 2).Draw(t, "memory") == 0
	c.Journal = rapid.SampledFrom([]string{"DELETE", "WAL"}).Draw(t, "journal")
	c.MaxConns = rapid.IntRange(1, 3).Draw(t, "maxconns")
	c.Seed = uint32(rapid.Uint32().Draw(t, "xxseed"))
	if rapid.IntRange(0, 3).Draw(t, "ownseed") == 0 {
		c.Seed = 0
	}
	if c.Mode == "handler" {
		c.BulkNum = rapid.IntRange(1, 3).Draw(t, "bulk")
		c.Sessions = rapid.IntRange(1, 3).Draw(t, "sessions")
	}
	maxB := 5
	if tier == "thorough" {
		maxB = 10
	}
	nb := rapid.IntRange(1, maxB).Draw(t, "nbatches")
	for b := 0; b < nb; b++ {
		var sb sqlBatch
		n := rapid.IntRange(1, 5).Draw(t, "batchsize")
		for i := 0; i < n; i++ {
			sb.Evs = append(sb.Evs, rapid.IntRange(0, len(evs)-1).Draw(t, "ev"))
		}
		sb.Queries = genQueries(t, evs, rapid.IntRange(1, 4).Draw(t, "nq"))
		if c.AvoidKnown {
			for qi := range sb.Queries {
				for fi := range sb.Queries[qi] {
					f := &sb.Queries[qi][fi]
					if f.Limit != nil && *f.Limit == 0 {
						one := int64(1)
						f.Limit = &one
					}
					if f.Tags != nil {
						if _, lo := f.Tags["t"]; lo {
							delete(f.Tags, "T")
						}
						if len(f.Tags) == 0 {
							f.Tags = nil
						}
					}
				}
			}
		}
		c.Batches = append(c.Batches, sb)
	}
	if c.Mode == "handler" {
		c.Sched = GenSchedule(t, 2500)
	}
	return c
}

func (sqlEngine) Exec(t *testing.T, cc any) *simrt.Result {
	c := cc.(*SQLCase)
	return simrt.Run(t, c.Sched, 600000, func(sim *simrt.Sim) {
		st := &sim.Res.Stats
		evs := (&CacheCase{Events: c.Events}).build()
		dir, err := os.MkdirTemp("", "verif-sql-")
		if err != nil {
			sim.Res.Harness = err.Error()
			return
		}
		defer os.RemoveAll(dir)
		d, err := openSQL(sim, dir, c.Journal, c.Memory, c.MaxConns, c.Seed)
		if err != nil {
			sim.Res.Harness = "open: " + err.Error()
			return
		}
		defer d.db.Close()
		spec := newSQLSpec()
		report := func(fs []cacheFinding, ctx string) {
			for _, f := range fs {
				sim.Violate(f.Prop, f.Class, f.Attrs, "%s: %s", ctx, f.Msg)
			}
		}
		var cls []*simrt.Client
		var hctx context.Context
		var hcancel context.CancelFunc
		const bulkDur = 30 * time.Second
		if c.Mode == "handler" {
			hctx, hcancel = context.WithCancel(context.Background())
			h, err := mocsqlite.NewSQLiteHandler(hctx, d.db, &mocsqlite.SQLiteHandlerOption{EventBulkInsertNum: c.BulkNum, EventBulkInsertDur: bulkDur, MaxLimit: mocsqlite.NoLimit})
			if err != nil {
				sim.Res.Harness = "NewSQLiteHandler: " + err.Error()
				hcancel()
				return
			}
			sim.Cleanup(hcancel)
			for i := 0; i < c.Sessions; i++ {
				k := sim.NewClient(context.Background(), fmt.Sprintf("s%d", i), nil)
				cls = append(cls, k)
				k.Serve(h)
			}
			sim.Drive()
		}
		for bi, b := range c.Batches {
			var batch []*mocrelay.Event
			for _, i := range b.Evs {
				batch = append(batch, evs[i])
			}
			ctx := fmt.Sprintf("batch %d", bi)
			if c.Mode == "direct" {
				if err := d.insert(context.Background(), batch); err != nil {
					sim.Violate("C06", "insert-error", nil, "%s: fault-free insertion failed: %v", ctx, err)
					return
				}
			} else {
				n0 := make([]int, len(cls))
				for i, e := range batch {
					k := i % len(cls)
					cls[k].Do(simrt.Op{Kind: "send", Msg: &simrt.Msg{T: "EVENT", EvObj: e}})
					n0[k]++
				}
				if s := sim.Drive(); s != simrt.Quiescent {
					sim.Violate("C06", "deadlock", nil, "%s: %v", ctx, sim.S.ParkedNames())
					return
				}
				// flush what the bulk inserter still holds: the ticker
				sim.Res.Stats.Fault("clock-jump")
				if s := sim.Advance(bulkDur + time.Second); s != simrt.Quiescent {
					sim.Violate("C06", "deadlock", nil, "%s after tick: %v", ctx, sim.S.ParkedNames())
					return
				}
				// C16: every EVENT was answered by exactly one accepting OK, in order
				for k, cl := range cls {
					got := cl.Got[len(cl.Got)-min(len(cl.Got), n0[k]):]
					if len(got) != n0[k] {
						sim.Violate("C16", "sqlite-event-reply-count", nil, "%s: session %s sent %d EVENTs, got %d replies", ctx, cl.Name, n0[k], len(got))
					}
					for _, g := range got {
						if okm, is := g.Msg.(*mocrelay.ServerOKMsg); !is || !okm.Accepted {
							sim.Violate("C16", "sqlite-event-reply", nil, "%s: session %s: EVENT answered by %s", ctx, cl.Name, simrt.DescribeServer(g.Msg))
						}
					}
				}
			}
			spec.add(batch)
			R, err := d.query([]*mocrelay.ReqFilter{{}})
			if err != nil {
				sim.Violate("C06", "query-error", nil, "%s: match-everything query failed: %v", ctx, err)
				return
			}
			report(spec.checkStored(R), ctx)
			for qi, fs := range b.Queries {
				filters := simrt.Filters(fs)
				if len(filters) == 0 {
					filters = []*mocrelay.ReqFilter{}
				}
				var ans []*mocrelay.Event
				via := c.Mode == "handler" && (bi+qi)%2 == 0
				if via {
					cl := cls[(bi+qi)%len(cls)]
					n0 := len(cl.Got)
					cl.Do(simrt.Op{Kind: "send", Msg: &simrt.Msg{T: "REQ", Sub: "q", Filters: fs}})
					sim.Drive()
					got := cl.Got[n0:]
					if len(got) == 0 {
						sim.Violate("C16", "sqlite-req-no-reply", nil, "%s: REQ got no reply", ctx)
						continue
					}
					for i, g := range got {
						switch m := g.Msg.(type) {
						case *mocrelay.ServerEventMsg:
							ans = append(ans, m.Event)
							if i == len(got)-1 || m.SubscriptionID != "q" {
								sim.Violate("C16", "sqlite-req-reply-grammar", nil, "%s: REQ reply ends with / mislabels %s", ctx, simrt.DescribeServer(m))
							}
						case *mocrelay.ServerEOSEMsg:
							if i != len(got)-1 {
								sim.Violate("C16", "sqlite-req-reply-grammar", nil, "%s: EOSE at position %d of %d", ctx, i, len(got))
							}
						default:
							sim.Violate("C16", "sqlite-req-reply-grammar", nil, "%s: unexpected %s", ctx, simrt.DescribeServer(g.Msg))
						}
					}
				} else {
					ans, err = d.query(filters)
					if err != nil {
						fj, _ := json.Marshal(fs)
						sim.Violate("C06", "query-error", sqlQueryAttrs(fs), "%s: query %s failed: %v", ctx, fj, truncate(err.Error(), 300))
						continue
					}
				}
				// the handler turns a failing query into a bare EOSE: compare with the direct answer
				if via {
					if _, derr := d.query(filters); derr != nil {
						fj, _ := json.Marshal(fs)
						sim.Violate("C06", "query-error", sqlQueryAttrs(fs), "%s: query %s failed: %v", ctx, fj, truncate(derr.Error(), 300))
						continue
					}
				}
				for _, e := range ans {
					if o := spec.byID[e.ID]; o != nil && !ref.EqualEvent(o, e) {
						sim.Violate("C06", "event-altered", nil, "%s: returned event %s differs from the inserted one", ctx, ref.Short(e.ID))
					}
				}
				if msg := ref.CheckAnswer(R, filters, ans); msg != "" {
					fj, _ := json.Marshal(fs)
					sim.Violate("C06", "wrong-answer", sqlQueryAttrs(fs), "%s: query %s over %d stored events: %s", ctx, fj, len(R), msg)
				}
			}
			hs := fnv.New64a()
			fmt.Fprintf(hs, "%d|%d|%v", len(R), len(spec.dels), c.Mode)
			st.State(hs.Sum64())
		}
		st.NonTrivial = len(spec.inserted) >= 2 && len(c.Batches) >= 1
		st.Completed = true
		if c.Mode == "handler" {
			for _, k := range cls {
				k.Cancel()
			}
			hcancel()
			sim.Drive()
			sim.Advance(4 * time.Second)
		}
	})
}

func sqlQueryAttrs(fs []simrt.FilterSpec) map[string]string {
	at := map[string]string{}
	for _, f := range fs {
		if f.Limit != nil && *f.Limit == 0 {
			at["limit0"] = "true"
		}
		lower := map[string]bool{}
		for k := range f.Tags {
			lower[string([]byte{k[0] | 0x20})] = true
		}
		if len(lower) < len(f.Tags) {
			at["case_alias"] = "true"
		}
	}
	return at
}

func truncate(s string, n int) string {
	if len(s) > n {
		return s[:n] + "..."
	}
	return s
}

// copyFiles copies the database files of dir (main file, journal, wal, shm).
func copyFiles(from, to string) error {
	ents, err := os.ReadDir(from)
	if err != nil {
		return err
	}
	if err := os.MkdirAll(to, 0o755); err != nil {
		return err
	}
	for _, e := range ents {
		if e.IsDir() {
			continue
		}
		in, err := os.Open(filepath.Join(from, e.Name()))
		if err != nil {
			return err
		}
		out, err := os.Create(filepath.Join(to, e.Name()))
		if err != nil {
			in.Close()
			return err
		}
		_, err = io.Copy(out, in)
		in.Close()
		out.Close()
		if err != nil {
			return err
		}
	}
	return nil
}

func answersKey(evs []*mocrelay.Event) string {
	ids := make([]string, len(evs))
	for i, e := range evs {
		ids[i] = fmt.Sprintf("%d:%s", e.CreatedAt, e.ID)
	}
	// order inside equal created_at is not specified
	sort.Strings(ids)
	b, _ := json.Marshal(ids)
	return string(b)
}
