// Package ref holds the reference pieces shared by the oracles. They are
// written from NIP-01 / NIP-09 and the property statements, not from the code
// under test.
package ref

import (
	"crypto/sha256"
	"encoding/hex"
	"fmt"
	"sort"
	"strconv"
	"strings"
	"unicode/utf8"

	"github.com/btcsuite/btcd/btcec/v2"
	"github.com/btcsuite/btcd/btcec/v2/schnorr"
	"github.com/high-moctane/mocrelay"
)

// Canonical returns the NIP-01 canonical serialization
// [0,pubkey,created_at,kind,tags,content]: compact UTF-8 JSON, only the escapes
// NIP-01 mandates (\n \" \\ \r \t \b \f), remaining C0 controls as \u00xx,
// every other character verbatim.
func Canonical(pubkey string, createdAt, kind int64, tags [][]string, content string) []byte {
	var b strings.Builder
	b.WriteString("[0,")
	jstr(&b, pubkey)
	b.WriteByte(',')
	b.WriteString(strconv.FormatInt(createdAt, 10))
	b.WriteByte(',')
	b.WriteString(strconv.FormatInt(kind, 10))
	b.WriteString(",[")
	for i, t := range tags {
		if i > 0 {
			b.WriteByte(',')
		}
		b.WriteByte('[')
		for j, e := range t {
			if j > 0 {
				b.WriteByte(',')
			}
			jstr(&b, e)
		}
		b.WriteByte(']')
	}
	b.WriteString("],")
	jstr(&b, content)
	b.WriteByte(']')
	return []byte(b.String())
}

func jstr(b *strings.Builder, s string) {
	b.WriteByte('"')
	for i := 0; i < len(s); {
		r, n := utf8.DecodeRuneInString(s[i:])
		switch {
		case r == '\n':
			b.WriteString(`\n`)
		case r == '"':
			b.WriteString(`\"`)
		case r == '\\':
			b.WriteString(`\\`)
		case r == '\r':
			b.WriteString(`\r`)
		case r == '\t':
			b.WriteString(`\t`)
		case r == '\b':
			b.WriteString(`\b`)
		case r == '\f':
			b.WriteString(`\f`)
		case r < 0x20:
			fmt.Fprintf(b, `\u%04x`, r)
		default:
			b.WriteString(s[i : i+n])
		}
		i += n
	}
	b.WriteByte('"')
}

// Author is a signing identity.
type Author struct {
	Priv   *btcec.PrivateKey
	Pubkey string
}

// Authors are four fixed identities derived from constants (no randomness).
var Authors = func() []Author {
	var out []Author
	for i := 1; i <= 4; i++ {
		h := sha256.Sum256([]byte(fmt.Sprintf("verif-author-%d", i)))
		priv, pub := btcec.PrivKeyFromBytes(h[:])
		out = append(out, Author{Priv: priv, Pubkey: hex.EncodeToString(schnorr.SerializePubKey(pub))})
	}
	return out
}()


// MkEvent builds an event whose id is the SHA-256 of its canonical form. With
// sign=false the signature is a syntactically valid placeholder (handlers behind
// the admission gate never look at it).
func MkEvent(author int, kind, createdAt int64, tags [][]string, content string, sign bool) *mocrelay.Event {
	a := Authors[author%len(Authors)]
	if tags == nil {
		tags = [][]string{}
	}
	id := sha256.Sum256(Canonical(a.Pubkey, createdAt, kind, tags, content))
	ev := &mocrelay.Event{
		ID:        hex.EncodeToString(id[:]),
		Pubkey:    a.Pubkey,
		CreatedAt: createdAt,
		Kind:      kind,
		Content:   content,
		Sig:       fakeSig(id[:]),
	}
	ev.Tags = make([]mocrelay.Tag, len(tags))
	for i, t := range tags {
		ev.Tags[i] = mocrelay.Tag(append([]string(nil), t...))
	}
	if sign {
		sig, err := schnorr.Sign(a.Priv, id[:])
		if err != nil {
			panic(err)
		}
		ev.Sig = hex.EncodeToString(sig.Serialize())
	}
	return ev
}

// fakeSig is the signature field of events that are not really signed: 128 hex
// digits that differ from event to event (a store that mixes up signatures of
// two events must show), derived from the id.
func fakeSig(id []byte) string {
	a := sha256.Sum256(append([]byte("verif-sig-a"), id...))
	b := sha256.Sum256(append([]byte("verif-sig-b"), id...))
	return hex.EncodeToString(a[:]) + hex.EncodeToString(b[:])
}

// Class of an event per NIP-01.
type Class int

const (
	Regular Class = iota
	Replaceable
	Ephemeral
	Addressable
)

func ClassOf(kind int64) Class {
	switch {
	case kind == 0 || kind == 3 || (10000 <= kind && kind < 20000):
		return Replaceable
	case 20000 <= kind && kind < 30000:
		return Ephemeral
	case 30000 <= kind && kind < 40000:
		return Addressable
	}
	return Regular
}

// DTag returns the value of the first d tag and whether there is one.
func DTag(ev *mocrelay.Event) (string, bool) {
	for _, t := range ev.Tags {
		if len(t) >= 1 && t[0] == "d" {
			if len(t) >= 2 {
				return t[1], true
			}
			return "", true
		}
	}
	return "", false
}

// Address is the identity under which "newest version wins": the id for
// regular events, kind:pubkey for replaceable ones, kind:pubkey:d for
// addressable ones. ok=false: the event has no defined address (ephemeral, or
// addressable without a d tag).
func Address(ev *mocrelay.Event) (addr string, ok bool) {
	switch ClassOf(ev.Kind) {
	case Regular:
		return "id:" + ev.ID, true
	case Replaceable:
		return fmt.Sprintf("r:%d:%s", ev.Kind, ev.Pubkey), true
	case Addressable:
		d, has := DTag(ev)
		if !has {
			return "", false
		}
		return fmt.Sprintf("a:%d:%s:%s", ev.Kind, ev.Pubkey, d), true
	}
	return "", false
}

// ATagValue is the NIP-01 `a` tag value addressing ev (addressable events).
func ATagValue(ev *mocrelay.Event) string {
	d, _ := DTag(ev)
	return fmt.Sprintf("%d:%s:%s", ev.Kind, ev.Pubkey, d)
}

// Match is the NIP-01 filter predicate.
func Match(ev *mocrelay.Event, f *mocrelay.ReqFilter) bool {
	if f.IDs != nil && !contains(f.IDs, ev.ID) {
		return false
	}
	if f.Authors != nil && !contains(f.Authors, ev.Pubkey) {
		return false
	}
	if f.Kinds != nil {
		ok := false
		for _, k := range f.Kinds {
			if k == ev.Kind {
				ok = true
			}
		}
		if !ok {
			return false
		}
	}
	for name, vals := range f.Tags {
		ok := false
		for _, t := range ev.Tags {
			if len(t) >= 1 && t[0] == name {
				v := ""
				if len(t) >= 2 {
					v = t[1]
				}
				if contains(vals, v) {
					ok = true
					break
				}
			}
		}
		if !ok {
			return false
		}
	}
	if f.Since != nil && ev.CreatedAt < *f.Since {
		return false
	}
	if f.Until != nil && ev.CreatedAt > *f.Until {
		return false
	}
	return true
}

func MatchAny(ev *mocrelay.Event, fs []*mocrelay.ReqFilter) bool {
	for _, f := range fs {
		if Match(ev, f) {
			return true
		}
	}
	return false
}

func contains(l []string, s string) bool {
	for _, x := range l {
		if x == s {
			return true
		}
	}
	return false
}

// CheckAnswer decides whether `answer` is an allowed reply to the filter list fs
// over the retained/stored set `set`, per the C03/C06 statement: for each filter
// the `limit` newest matching events (all when no limit), merged without
// duplicates, in non-increasing created_at order. Ties at a filter's cut-off
// timestamp may be resolved either way. Returns "" when allowed.
func CheckAnswer(set []*mocrelay.Event, fs []*mocrelay.ReqFilter, answer []*mocrelay.Event) string {
	byID := map[string]*mocrelay.Event{}
	for _, e := range set {
		byID[e.ID] = e
	}
	seen := map[string]bool{}
	for i, e := range answer {
		if seen[e.ID] {
			return fmt.Sprintf("duplicate id %s in answer", short(e.ID))
		}
		seen[e.ID] = true
		if i > 0 && answer[i-1].CreatedAt < e.CreatedAt {
			return fmt.Sprintf("answer not in non-increasing created_at order at index %d (%d then %d)", i, answer[i-1].CreatedAt, e.CreatedAt)
		}
		if byID[e.ID] == nil {
			return fmt.Sprintf("answer contains %s which is not in the retained set", short(e.ID))
		}
	}
	// per filter: must-have (strictly newer than the cut-off) and the tie class
	type fl struct {
		must map[string]bool
		tie  []string
		need int // how many of tie must be chosen (exactly)
	}
	var fls []fl
	mustAll := map[string]bool{}
	for _, f := range fs {
		var m []*mocrelay.Event
		for _, e := range set {
			if Match(e, f) {
				m = append(m, e)
			}
		}
		sort.SliceStable(m, func(i, j int) bool { return m[i].CreatedAt > m[j].CreatedAt })
		x := fl{must: map[string]bool{}}
		if f.Limit == nil || int64(len(m)) <= *f.Limit {
			for _, e := range m {
				x.must[e.ID] = true
			}
		} else {
			lim := int(*f.Limit)
			if lim > 0 {
				cut := m[lim-1].CreatedAt
				n := 0
				for _, e := range m {
					if e.CreatedAt > cut {
						x.must[e.ID] = true
						n++
					} else if e.CreatedAt == cut {
						x.tie = append(x.tie, e.ID)
					}
				}
				x.need = lim - n
			}
		}
		for id := range x.must {
			mustAll[id] = true
		}
		fls = append(fls, x)
	}
	mustIDs := make([]string, 0, len(mustAll))
	for id := range mustAll {
		mustIDs = append(mustIDs, id)
	}
	sort.Strings(mustIDs)
	for _, id := range mustIDs {
		if !seen[id] {
			return fmt.Sprintf("answer lacks %s (created_at %d), which is among the newest matches of a filter", short(id), byID[id].CreatedAt)
		}
	}
	// The remaining answer elements must be exactly the union of per-filter
	// choices S_i ⊆ tie_i with |S_i| = need_i. Search (≤ 3 filters, small ties).
	var extra []string
	for _, e := range answer {
		if !mustAll[e.ID] {
			extra = append(extra, e.ID)
		}
	}
	var rec func(i int, chosen map[string]bool) bool
	rec = func(i int, chosen map[string]bool) bool {
		if i == len(fls) {
			// chosen \ mustAll must equal extra
			cnt := 0
			for id := range chosen {
				if !mustAll[id] {
					if !seen[id] {
						return false
					}
					cnt++
				}
			}
			return cnt == len(extra)
		}
		x := fls[i]
		if x.need == 0 {
			return rec(i+1, chosen)
		}
		// choose x.need of x.tie; prefer ids that are in the answer: any valid
		// solution only uses ids in the answer (others would be missing)
		var cand []string
		for _, id := range x.tie {
			if seen[id] {
				cand = append(cand, id)
			}
		}
		if len(cand) < x.need {
			return false
		}
		idx := make([]int, x.need)
		var comb func(start, k int) bool
		comb = func(start, k int) bool {
			if k == x.need {
				var added []string
				for _, j := range idx {
					if !chosen[cand[j]] {
						chosen[cand[j]] = true
						added = append(added, cand[j])
					}
				}
				ok := rec(i+1, chosen)
				for _, id := range added {
					delete(chosen, id)
				}
				return ok
			}
			for j := start; j < len(cand); j++ {
				idx[k] = j
				if comb(j+1, k+1) {
					return true
				}
			}
			return false
		}
		return comb(0, 0)
	}
	if !rec(0, map[string]bool{}) {
		return fmt.Sprintf("answer %v is not a union of per-filter newest-`limit` selections (extra elements %v cannot be attributed)", shorts(answer), shortIDs(extra))
	}
	return ""
}

func short(id string) string {
	if len(id) > 8 {
		return id[:8]
	}
	return id
}

func shortIDs(ids []string) []string {
	out := make([]string, len(ids))
	for i, s := range ids {
		out[i] = short(s)
	}
	return out
}

func shorts(evs []*mocrelay.Event) []string {
	out := make([]string, len(evs))
	for i, e := range evs {
		out[i] = fmt.Sprintf("%s@%d", short(e.ID), e.CreatedAt)
	}
	return out
}

// Short is exported for messages.
func Short(id string) string { return short(id) }

// EqualEvent compares all seven fields.
func EqualEvent(a, b *mocrelay.Event) bool {
	if a.ID != b.ID || a.Pubkey != b.Pubkey || a.CreatedAt != b.CreatedAt || a.Kind != b.Kind || a.Content != b.Content || a.Sig != b.Sig {
		return false
	}
	if len(a.Tags) != len(b.Tags) {
		return false
	}
	for i := range a.Tags {
		if len(a.Tags[i]) != len(b.Tags[i]) {
			return false
		}
		for j := range a.Tags[i] {
			if a.Tags[i][j] != b.Tags[i][j] {
				return false
			}
		}
	}
	return true
}
