package simrt

import (
	"context"
	"sync/atomic"
	"time"

	"github.com/high-moctane/mocrelay"
	"github.com/high-moctane/mocrelay/verifsim"
)

// Op is one step of a scripted client.
type Op struct {
	Kind string `json:"op"` // send | cancel | closerecv | pause | resume | await
	Msg  *Msg   `json:"msg,omitempty"`
	D    int64  `json:"d,omitempty"`   // advance: seconds of simulated time
	N    int    `json:"n,omitempty"`   // await: block until N replies (see Client.IsReply) have been received
	Key  string `json:"key,omitempty"` // awaitkey: block until N messages with this key (see Client.KeyOf) have been received
}

// Got is one message taken from the send channel.
type Got struct {
	Msg   mocrelay.ServerMsg
	Stamp int64
	T     time.Time // simulated time of receipt
}

// Sent is the record of one send op.
type Sent struct {
	Idx      int // index in the script
	Msg      mocrelay.ClientMsg
	Invoke   int64     // stamp when the attempt started
	Accepted int64     // stamp when the system took the message (0: never)
	InvokeT  time.Time // simulated time of Invoke
}

// Client is a scripted peer of one Handler session.
type Client struct {
	Name   string
	Sim    *Sim
	Recv   chan mocrelay.ClientMsg
	Send   chan mocrelay.ServerMsg
	Ctx    context.Context
	Cancel context.CancelFunc

	Script []Op
	Sent   []*Sent
	Got    []Got
	// IsReply decides which received messages count for `await` (default: all).
	IsReply func(mocrelay.ServerMsg) bool
	// KeyOf classifies received messages for `awaitkey`.
	KeyOf  func(mocrelay.ServerMsg) string
	keyCnt map[string]int
	// OnSend, if set, is called by the writer actor right before script op i
	// (a send) is attempted.
	OnSend  func(i int)
	replies int

	dyn     chan Op // ops injected by the driver after the static script (see Do)
	paused  atomic.Bool
	resume  chan struct{}
	kick    chan struct{}
	stop    chan struct{}
	gotCh   chan struct{} // signalled on every receive (for await)
	waiting atomic.Int64  // await target (0 = not waiting)

	ServeGoid    string // goroutine id of the session's ServeNostr call
	ScriptDone   atomic.Bool
	Returned     atomic.Bool // ServeNostr returned
	ReturnStamp  int64
	ReturnErr    error
	CancelStamp  int64
	CloseStamp   int64
	recvClosed   bool
	readerExited atomic.Bool
}

// NewClient creates a client with unbuffered channels (as Relay.ServeHTTP does).
func (sim *Sim) NewClient(parent context.Context, name string, script []Op) *Client {
	ctx, cancel := context.WithCancel(parent)
	c := &Client{
		Name: name, Sim: sim,
		Recv: make(chan mocrelay.ClientMsg), Send: make(chan mocrelay.ServerMsg),
		Ctx: ctx, Cancel: cancel, Script: script,
		resume: make(chan struct{}, 1), kick: make(chan struct{}, 1), stop: make(chan struct{}),
		gotCh: make(chan struct{}, 1), dyn: make(chan Op, 64),
	}
	sim.Cleanup(func() { c.Cancel(); c.Stop() })
	return c
}

// Serve starts the handler session and the two actors.
func (c *Client) Serve(h mocrelay.Handler) {
	sim := c.Sim
	sim.Go(c.Name+".serve", func() { c.serveMain(h) })
	sim.Go(c.Name+".rd", c.reader)
	sim.Go(c.Name+".wr", c.writer)
}

// The actors' own bookkeeping is synchronised by the scheduler only, which a
// -race build hides from the detector: these functions are not instrumented.
//
//go:norace
func (c *Client) serveMain(h mocrelay.Handler) {
	c.ServeGoid = verifsim.GoroutineID()
	err := h.ServeNostr(c.Ctx, c.Send, c.Recv)
	c.ReturnErr = err
	c.ReturnStamp = c.Sim.Stamp()
	c.Returned.Store(true)
}

//go:norace
func (c *Client) reader() {
	defer c.readerExited.Store(true)
	for {
		verifsim.Yield(c.Name + ".rd")
		if c.paused.Load() {
			select {
			case <-c.resume:
			case <-c.stop:
				return
			}
			continue
		}
		select {
		case m := <-c.Send:
			c.Got = append(c.Got, Got{Msg: m, Stamp: c.Sim.Stamp(), T: time.Now()})
			c.Sim.Logf("%s got %s", c.Name, DescribeServer(m))
			if c.IsReply == nil || c.IsReply(m) {
				c.replies++
			}
			if c.KeyOf != nil {
				if c.keyCnt == nil {
					c.keyCnt = map[string]int{}
				}
				c.keyCnt[c.KeyOf(m)]++
			}
			if w := c.waiting.Load(); w != 0 {
				select {
				case c.gotCh <- struct{}{}:
				default:
				}
			}
		case <-c.kick:
		case <-c.stop:
			return
		}
	}
}

//go:norace
func (c *Client) writer() {
	for i, op := range c.Script {
		verifsim.Yield(c.Name + ".wr")
		if !c.exec(i, op) {
			c.ScriptDone.Store(true)
			return
		}
	}
	c.ScriptDone.Store(true)
	for i := len(c.Script); ; i++ {
		var op Op
		select {
		case op = <-c.dyn:
		case <-c.stop:
			return
		}
		verifsim.Yield(c.Name + ".wr")
		if !c.exec(i, op) {
			return
		}
	}
}

// Do hands one more op to the writer actor (driver only); the op is executed
// during the following Drive.
//
//go:norace
func (c *Client) Do(op Op) { c.dyn <- op }

//go:norace
func (c *Client) exec(i int, op Op) (goOn bool) {
	c.Sim.Logf("%s op[%d] %s", c.Name, i, op.Kind)
	switch op.Kind {
	case "send":
		if c.recvClosed {
			return true
		}
		m := op.Msg.Client()
		if c.OnSend != nil {
			c.OnSend(i)
		}
		s := &Sent{Idx: i, Msg: m, Invoke: c.Sim.Stamp(), InvokeT: time.Now()}
		c.Sent = append(c.Sent, s)
		select {
		case c.Recv <- m:
			s.Accepted = c.Sim.Stamp()
		case <-c.stop:
			return false
		}
	case "cancel":
		c.CancelStamp = c.Sim.Stamp()
		c.Cancel()
	case "closerecv":
		if !c.recvClosed {
			c.recvClosed = true
			c.CloseStamp = c.Sim.Stamp()
			close(c.Recv)
		}
	case "pause":
		c.paused.Store(true)
		select {
		case c.kick <- struct{}{}:
		default:
		}
	case "resume":
		c.Resume()
	case "advance":
		c.Sim.Request("advance", time.Duration(op.D)*time.Second)
	case "sync":
		c.Sim.Request("sync", 0)
	case "awaitkey":
		c.waiting.Store(1)
		for c.keyCnt[op.Key] < op.N {
			select {
			case <-c.gotCh:
			case <-c.stop:
				return false
			}
		}
		c.waiting.Store(0)
	case "await":
		c.waiting.Store(int64(op.N))
		for c.replies < op.N {
			select {
			case <-c.gotCh:
			case <-c.stop:
				return false
			}
		}
		c.waiting.Store(0)
	}
	return true
}

// Paused reports whether the reader is currently stalled.
//
//go:norace
func (c *Client) Paused() bool { return c.paused.Load() }

// Resume re-enables the reader.
//
//go:norace
func (c *Client) Resume() {
	if c.paused.Swap(false) {
		select {
		case c.resume <- struct{}{}:
		default:
		}
	}
}

// Stop ends both actors (they exit at their next blocking point).
//
//go:norace
func (c *Client) Stop() {
	select {
	case <-c.stop:
	default:
		close(c.stop)
	}
}

// GotSnapshot returns a copy of what was received so far. Only call at
// quiescence.
//
//go:norace
func (c *Client) GotSnapshot() []Got { return append([]Got(nil), c.Got...) }
