package simrt

import (
	"context"
	"database/sql"
	"database/sql/driver"
	"errors"
	"fmt"
	"sync"

	sqlite3 "github.com/mattn/go-sqlite3"
)

// The fault-injecting database/sql driver: a thin wrapper around the real
// go-sqlite3 driver. While a plan is armed every BeginTx / Prepare / Stmt.Exec /
// Commit of the wrapped connection is a numbered fault point.

// ErrInjected is what an injected I/O failure returns.
var ErrInjected = errors.New("verif: injected I/O error")

// FaultPlan decides what happens at the fault points of one run.
type FaultPlan struct {
	mu     sync.Mutex
	armed  bool
	n      int
	FailAt int                            // fail the k-th point (1-based; 0: none)
	Hook   func(n int, what string) error // called at every point while armed (after FailAt was considered); may snapshot files, cancel contexts, or return an error to inject
	Log    []string
	Fired  int
}

var curPlan struct {
	mu sync.Mutex
	p  *FaultPlan
}

// SetFaultPlan installs the plan consulted by every connection of the
// "verif-sqlite3" driver (nil: no faults).
func SetFaultPlan(p *FaultPlan) {
	curPlan.mu.Lock()
	curPlan.p = p
	curPlan.mu.Unlock()
}

func (p *FaultPlan) Arm()    { p.mu.Lock(); p.armed = true; p.n = 0; p.Log = nil; p.mu.Unlock() }
func (p *FaultPlan) Disarm() { p.mu.Lock(); p.armed = false; p.mu.Unlock() }

// Points returns how many fault points were passed since Arm.
func (p *FaultPlan) Points() int { p.mu.Lock(); defer p.mu.Unlock(); return p.n }

func point(what string) error {
	curPlan.mu.Lock()
	p := curPlan.p
	curPlan.mu.Unlock()
	if p == nil {
		return nil
	}
	p.mu.Lock()
	if !p.armed {
		p.mu.Unlock()
		return nil
	}
	p.n++
	n := p.n
	p.Log = append(p.Log, fmt.Sprintf("%d:%s", n, what))
	fail := p.FailAt == n
	hook := p.Hook
	if fail {
		p.Fired++
	}
	p.mu.Unlock()
	if fail {
		return ErrInjected
	}
	if hook != nil {
		return hook(n, what)
	}
	return nil
}

type faultDriver struct{ inner *sqlite3.SQLiteDriver }

func init() { sql.Register("verif-sqlite3", &faultDriver{inner: &sqlite3.SQLiteDriver{}}) }

func (d *faultDriver) Open(name string) (driver.Conn, error) {
	c, err := d.inner.Open(name)
	if err != nil {
		return nil, err
	}
	return &faultConn{c.(*sqlite3.SQLiteConn)}, nil
}

type faultConn struct{ c *sqlite3.SQLiteConn }

func (c *faultConn) Prepare(q string) (driver.Stmt, error) {
	return c.PrepareContext(context.Background(), q)
}
func (c *faultConn) Close() error { return c.c.Close() }
func (c *faultConn) Begin() (driver.Tx, error) {
	return c.BeginTx(context.Background(), driver.TxOptions{})
}

func (c *faultConn) BeginTx(ctx context.Context, opts driver.TxOptions) (driver.Tx, error) {
	if err := point("begin"); err != nil {
		return nil, err
	}
	tx, err := c.c.BeginTx(ctx, opts)
	if err != nil {
		return nil, err
	}
	return &faultTx{tx}, nil
}

func (c *faultConn) PrepareContext(ctx context.Context, q string) (driver.Stmt, error) {
	if err := point("prepare"); err != nil {
		return nil, err
	}
	s, err := c.c.PrepareContext(ctx, q)
	if err != nil {
		return nil, err
	}
	return &faultStmt{s.(*sqlite3.SQLiteStmt)}, nil
}

func (c *faultConn) ExecContext(ctx context.Context, q string, args []driver.NamedValue) (driver.Result, error) {
	return c.c.ExecContext(ctx, q, args)
}

func (c *faultConn) QueryContext(ctx context.Context, q string, args []driver.NamedValue) (driver.Rows, error) {
	if err := point("query"); err != nil {
		return nil, err
	}
	return c.c.QueryContext(ctx, q, args)
}

func (c *faultConn) Ping(ctx context.Context) error { return c.c.Ping(ctx) }

type faultTx struct{ tx driver.Tx }

func (t *faultTx) Commit() error {
	if err := point("commit"); err != nil {
		// a commit that fails leaves no transaction behind: SQLite rolls back
		t.tx.Rollback()
		return err
	}
	return t.tx.Commit()
}

func (t *faultTx) Rollback() error { return t.tx.Rollback() }

type faultStmt struct{ s *sqlite3.SQLiteStmt }

func (s *faultStmt) Close() error  { return s.s.Close() }
func (s *faultStmt) NumInput() int { return s.s.NumInput() }
func (s *faultStmt) Exec(args []driver.Value) (driver.Result, error) {
	if err := point("exec"); err != nil {
		return nil, err
	}
	return s.s.Exec(args)
}
func (s *faultStmt) Query(args []driver.Value) (driver.Rows, error) { return s.s.Query(args) }
func (s *faultStmt) ExecContext(ctx context.Context, args []driver.NamedValue) (driver.Result, error) {
	if err := point("exec"); err != nil {
		return nil, err
	}
	return s.s.ExecContext(ctx, args)
}
func (s *faultStmt) QueryContext(ctx context.Context, args []driver.NamedValue) (driver.Rows, error) {
	return s.s.QueryContext(ctx, args)
}
