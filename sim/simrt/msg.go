package simrt

import (
	"fmt"

	"github.com/high-moctane/mocrelay"
	"verif.local/sim/ref"
)

// EvSpec describes an event; the event itself is a pure function of the spec.
type EvSpec struct {
	Author    int        `json:"author"`
	Kind      int64      `json:"kind"`
	CreatedAt int64      `json:"created_at"`
	Tags      [][]string `json:"tags,omitempty"`
	Content   string     `json:"content,omitempty"`
	Sign      bool       `json:"sign,omitempty"`
	// ForceID: the event carries this id instead of its own (nothing below the
	// WebSocket layer verifies ids: to a middleware two different events may
	// come with one id)
	ForceID string `json:"force_id,omitempty"`

	ev *mocrelay.Event
}

// Event builds (once) the event described by the spec.
func (s *EvSpec) Event() *mocrelay.Event {
	if s.ev == nil {
		s.ev = ref.MkEvent(s.Author, s.Kind, s.CreatedAt, s.Tags, s.Content, s.Sign)
		if s.ForceID != "" {
			s.ev.ID = s.ForceID
		}
	}
	return s.ev
}

// FilterSpec mirrors mocrelay.ReqFilter with plain JSON encoding.
type FilterSpec struct {
	IDs     []string            `json:"ids,omitempty"`
	Authors []string            `json:"authors,omitempty"`
	Kinds   []int64             `json:"kinds,omitempty"`
	Tags    map[string][]string `json:"tags,omitempty"`
	Since   *int64              `json:"since,omitempty"`
	Until   *int64              `json:"until,omitempty"`
	Limit   *int64              `json:"limit,omitempty"`
	// HasIDs etc. distinguish "absent" from "present but empty"
	EmptyIDs     bool `json:"empty_ids,omitempty"`
	EmptyAuthors bool `json:"empty_authors,omitempty"`
	EmptyKinds   bool `json:"empty_kinds,omitempty"`
}

func (f *FilterSpec) Filter() *mocrelay.ReqFilter {
	r := &mocrelay.ReqFilter{Since: f.Since, Until: f.Until, Limit: f.Limit}
	if f.IDs != nil || f.EmptyIDs {
		r.IDs = append([]string{}, f.IDs...)
	}
	if f.Authors != nil || f.EmptyAuthors {
		r.Authors = append([]string{}, f.Authors...)
	}
	if f.Kinds != nil || f.EmptyKinds {
		r.Kinds = append([]int64{}, f.Kinds...)
	}
	if f.Tags != nil {
		r.Tags = map[string][]string{}
		for k, v := range f.Tags {
			r.Tags[k] = append([]string{}, v...)
		}
	}
	return r
}

func Filters(fs []FilterSpec) []*mocrelay.ReqFilter {
	out := make([]*mocrelay.ReqFilter, len(fs))
	for i := range fs {
		out[i] = fs[i].Filter()
	}
	return out
}

// Msg describes one client message.
type Msg struct {
	T       string       `json:"t"` // EVENT REQ CLOSE COUNT AUTH
	Sub     string       `json:"sub,omitempty"`
	Ev      *EvSpec      `json:"ev,omitempty"`
	Filters []FilterSpec `json:"filters,omitempty"`
	// EvObj, when set, is used instead of Ev (events whose tags were resolved by
	// the engine); never serialised: replay files carry the case, not messages.
	EvObj *mocrelay.Event `json:"-"`

	cm mocrelay.ClientMsg
}

// Client builds (once) the client message; the same pointer is returned on
// every call so that pointer identity can be used by transparency oracles.
func (m *Msg) Client() mocrelay.ClientMsg {
	if m.cm != nil {
		return m.cm
	}
	switch m.T {
	case "EVENT":
		if m.EvObj != nil {
			m.cm = &mocrelay.ClientEventMsg{Event: m.EvObj}
		} else {
			m.cm = &mocrelay.ClientEventMsg{Event: m.Ev.Event()}
		}
	case "REQ":
		m.cm = &mocrelay.ClientReqMsg{SubscriptionID: m.Sub, ReqFilters: Filters(m.Filters)}
	case "CLOSE":
		m.cm = &mocrelay.ClientCloseMsg{SubscriptionID: m.Sub}
	case "COUNT":
		m.cm = &mocrelay.ClientCountMsg{SubscriptionID: m.Sub, ReqFilters: Filters(m.Filters)}
	case "AUTH":
		m.cm = &mocrelay.ClientAuthMsg{Event: m.Ev.Event()}
	default:
		panic("bad msg type " + m.T)
	}
	return m.cm
}

// DescribeServer renders a server message for traces and violation texts.
func DescribeServer(m mocrelay.ServerMsg) string {
	switch x := m.(type) {
	case *mocrelay.ServerEOSEMsg:
		return fmt.Sprintf("EOSE(%s)", x.SubscriptionID)
	case *mocrelay.ServerEventMsg:
		return fmt.Sprintf("EVENT(%s,%s@%d)", x.SubscriptionID, ref.Short(x.Event.ID), x.Event.CreatedAt)
	case *mocrelay.ServerOKMsg:
		return fmt.Sprintf("OK(%s,%v,%q)", ref.Short(x.EventID), x.Accepted, x.Message())
	case *mocrelay.ServerCountMsg:
		return fmt.Sprintf("COUNT(%s,%d)", x.SubscriptionID, x.Count)
	case *mocrelay.ServerClosedMsg:
		return fmt.Sprintf("CLOSED(%s,%q)", x.SubscriptionID, x.Message())
	case *mocrelay.ServerNoticeMsg:
		return fmt.Sprintf("NOTICE(%q)", x.Message)
	case *mocrelay.ServerAuthMsg:
		return fmt.Sprintf("AUTH(%q)", x.Challenge)
	case nil:
		return "<nil>"
	}
	return fmt.Sprintf("%T", m)
}
