package simrt

import (
	"reflect"
	"unsafe"
)

// White-box observation without compile-time coupling to unexported names:
// the object graph is walked with reflection (unexported fields are read through
// unsafe pointers). A refactoring that renames fields does not break the build
// of the checks.

func deref(v reflect.Value) reflect.Value {
	if v.CanAddr() {
		return reflect.NewAt(v.Type(), unsafe.Pointer(v.UnsafeAddr())).Elem()
	}
	return v
}

// FindPointer returns the first value of pointer type `want` reachable from
// root through struct fields, pointers and interfaces (depth-first, bounded).
func FindPointer(root any, want reflect.Type) reflect.Value {
	seen := map[uintptr]bool{}
	var walk func(v reflect.Value, depth int) reflect.Value
	walk = func(v reflect.Value, depth int) reflect.Value {
		if depth > 8 || !v.IsValid() {
			return reflect.Value{}
		}
		v = deref(v)
		switch v.Kind() {
		case reflect.Pointer:
			if v.IsNil() {
				return reflect.Value{}
			}
			if v.Type() == want {
				return v
			}
			if seen[v.Pointer()] {
				return reflect.Value{}
			}
			seen[v.Pointer()] = true
			return walk(v.Elem(), depth+1)
		case reflect.Interface:
			if v.IsNil() {
				return reflect.Value{}
			}
			return walk(v.Elem(), depth+1)
		case reflect.Struct:
			for i := 0; i < v.NumField(); i++ {
				if r := walk(v.Field(i), depth+1); r.IsValid() {
					return r
				}
			}
		}
		return reflect.Value{}
	}
	rv := reflect.ValueOf(root)
	if rv.Kind() != reflect.Pointer {
		p := reflect.New(rv.Type())
		p.Elem().Set(rv)
		rv = p
	}
	return walk(rv, 0)
}

// MapEntries counts the entries of every map reachable from root (through
// struct fields, pointers, interfaces and map values). Used as a rename-proof
// measure of "what a registry still holds".
func MapEntries(root any) int {
	seen := map[uintptr]bool{}
	total := 0
	var walk func(v reflect.Value, depth int)
	walk = func(v reflect.Value, depth int) {
		if depth > 12 || !v.IsValid() {
			return
		}
		v = deref(v)
		switch v.Kind() {
		case reflect.Pointer:
			if v.IsNil() || seen[v.Pointer()] {
				return
			}
			seen[v.Pointer()] = true
			walk(v.Elem(), depth+1)
		case reflect.Interface:
			if !v.IsNil() {
				walk(v.Elem(), depth+1)
			}
		case reflect.Struct:
			for i := 0; i < v.NumField(); i++ {
				walk(v.Field(i), depth+1)
			}
		case reflect.Map:
			if v.IsNil() || seen[v.Pointer()] {
				return
			}
			seen[v.Pointer()] = true
			total += v.Len()
			it := v.MapRange()
			for it.Next() {
				walk(it.Value(), depth+1)
			}
		}
	}
	walk(reflect.ValueOf(root), 0)
	return total
}
