// Package simrt is the harness side of the deterministic simulator: one Sim is
// one run = one testing/synctest bubble in which the system under test, the
// harness actors and the cooperative scheduler (verifsim) live.
package simrt

import (
	"fmt"
	"os"
	"regexp"
	"runtime"
	"sort"
	"strconv"
	"strings"
	"sync"
	"sync/atomic"
	"testing"
	"testing/synctest"
	"time"

	"github.com/google/uuid"
	"github.com/high-moctane/mocrelay/verifsim"
)

// Pre is one forced preemption: at scheduling step At release enabled[Pick % n]
// (a goroutine different from the current one whenever there is another).
type Pre struct {
	At   int `json:"at"`
	Pick int `json:"pick"`
}

// Schedule is the complete description of every scheduling decision of a run.
// The zero value is the "boring" schedule: run the current goroutine until it
// blocks, then the enabled goroutine with the smallest name; every select polls
// in source order.
type Schedule struct {
	Seed    uint64 `json:"seed"`    // PRNG for random preemption and for forced choices beyond Forced
	Density int    `json:"density"` // 0: no random preemption, else P(preempt at a step) = 1/Density
	Preempt []Pre  `json:"preempt"` // explicit preemption points
	Forced  []int  `json:"forced"`  // choices taken when the current goroutine cannot continue
	SelMode uint64 `json:"selmode"` // see verifsim.Activate
	MapSeed uint64 `json:"mapseed,omitempty"` // 0: maps of the system under test are ranged in sorted key order, else in a permutation drawn from this seed per iteration
}

// CurrentProperty is the id of the property the process is checking (set by
// the test driver; used to attribute a crash of directly called code).
var CurrentProperty string

// panickingFrame returns the function name of the first frame below the
// runtime's panic machinery in a stack dump of the panicking goroutine.
func panickingFrame(stack string) string {
	lines := strings.Split(stack, "\n")
	seenPanic := false
	for _, l := range lines {
		if strings.HasPrefix(l, "\t") || strings.HasPrefix(l, "goroutine ") || l == "" {
			continue
		}
		if strings.HasPrefix(l, "panic(") || strings.HasPrefix(l, "runtime.") {
			if strings.HasPrefix(l, "panic(") || strings.Contains(l, "runtime.gopanic") || strings.Contains(l, "runtime.panic") || strings.Contains(l, "runtime.sigpanic") || strings.Contains(l, "runtime.goPanic") {
				seenPanic = true
			}
			continue
		}
		if seenPanic {
			return l
		}
	}
	return ""
}

type prng struct{ x uint64 }

func (p *prng) next() uint64 {
	p.x += 0x9E3779B97F4A7C15
	z := p.x
	z = (z ^ (z >> 30)) * 0xBF58476D1CE4E5B9
	z = (z ^ (z >> 27)) * 0x94D049BB133111EB
	return z ^ (z >> 31)
}

func (sc *Schedule) chooser(st *RunStats) func(step, cur int, en []*verifsim.G) int {
	r := &prng{x: sc.Seed}
	pre := make(map[int]int, len(sc.Preempt))
	for _, p := range sc.Preempt {
		if _, dup := pre[p.At]; !dup {
			pre[p.At] = p.Pick
		}
	}
	fi := 0
	return func(step, cur int, en []*verifsim.G) int {
		n := len(en)
		if p, ok := pre[step]; ok && n > 1 {
			i := p % n
			if i < 0 {
				i = -i
			}
			if i == cur {
				i = (i + 1) % n
			}
			st.Preemptions++
			return i
		}
		if cur >= 0 {
			if sc.Density > 0 && n > 1 && r.next()%uint64(sc.Density) == 0 {
				i := int(r.next() % uint64(n))
				if i != cur {
					st.Preemptions++
				}
				return i
			}
			return cur
		}
		if n == 1 {
			return 0
		}
		if fi < len(sc.Forced) {
			v := sc.Forced[fi]
			fi++
			if v < 0 {
				v = -v
			}
			return v % n
		}
		if sc.Seed == 0 {
			return 0
		}
		return int(r.next() % uint64(n))
	}
}

// RunStats is what one run reports for the evidence file.
type RunStats struct {
	Steps       int              `json:"steps"`
	Switches    int              `json:"switches"`
	Preemptions int              `json:"preemptions"`
	SimTime     time.Duration    `json:"sim_time_ns"`
	SchedHash   uint64           `json:"sched_hash"`
	Faults      map[string]int64 `json:"faults,omitempty"`     // fault kinds that actually fired
	Configured  map[string]int64 `json:"configured,omitempty"` // fault kinds configured for the run
	Probes      map[string]int64 `json:"probes,omitempty"`     // "rare condition reached" counters
	States      []uint64         `json:"-"`                    // abstract state hashes visited
	Completed   bool             `json:"completed"`
	NonTrivial  bool             `json:"nontrivial"`
}

func (st *RunStats) Fault(kind string) {
	if st.Faults == nil {
		st.Faults = map[string]int64{}
	}
	st.Faults[kind]++
}

func (st *RunStats) Config(kind string) {
	if st.Configured == nil {
		st.Configured = map[string]int64{}
	}
	st.Configured[kind]++
}

func (st *RunStats) Probe(name string) {
	if st.Probes == nil {
		st.Probes = map[string]int64{}
	}
	st.Probes[name]++
}

func (st *RunStats) State(h uint64) { st.States = append(st.States, h) }

// Violation is one oracle failure.
type Violation struct {
	Property string            `json:"property"`
	Class    string            `json:"class"`
	Attrs    map[string]string `json:"attrs,omitempty"`
	Step     int               `json:"step"`
	Msg      string            `json:"msg"`
}

func (v Violation) Key() string {
	return v.Property + "/" + v.Class
}

// Result of one run.
type Result struct {
	Violations []Violation `json:"violations"`
	Stats      RunStats    `json:"stats"`
	Trace      []string    `json:"trace,omitempty"`
	Harness    string      `json:"harness_error,omitempty"` // trouble of the machinery itself (never a VIOLATION)
}

// Sim is one run.
type Sim struct {
	T     *testing.T
	S     *verifsim.Sched
	Res   *Result
	start time.Time
	stamp atomic.Int64

	maxSteps int
	cleanup  []func()
	stuck    bool

	reqMu sync.Mutex
	reqs  []*driverReq
}

type driverReq struct {
	kind string
	d    time.Duration
	ch   chan struct{}
}

// Request is called by an actor: it blocks until the driver, at the next
// quiescent point, has performed the request ("advance": move the clock by d;
// "sync": run the engine's quiescent-point check).
func (sim *Sim) Request(kind string, d time.Duration) {
	r := &driverReq{kind: kind, d: d, ch: make(chan struct{})}
	sim.reqMu.Lock()
	sim.reqs = append(sim.reqs, r)
	sim.reqMu.Unlock()
	<-r.ch
}

// DriveAll drives to quiescence, serves the actors' requests there (clock
// advances, sync points) and repeats until nothing is left to do.
func (sim *Sim) DriveAll(onSync func()) DriveStatus {
	for {
		if st := sim.Drive(); st != Quiescent {
			return st
		}
		sim.reqMu.Lock()
		reqs := sim.reqs
		sim.reqs = nil
		sim.reqMu.Unlock()
		if len(reqs) == 0 {
			return Quiescent
		}
		synced := false
		for _, r := range reqs {
			switch r.kind {
			case "advance":
				sim.Res.Stats.Fault("clock-jump")
				if st := sim.Advance(r.d); st != Quiescent {
					return st
				}
			case "sync":
				if !synced && onSync != nil {
					onSync()
					synced = true
				}
			}
		}
		for _, r := range reqs {
			close(r.ch)
		}
	}
}

// Cleanup registers f to run (on the driver, in reverse order) when the body
// returns, normally or not; afterwards the scheduler runs everything to
// quiescence once more so that every goroutine of the run can exit.
func (sim *Sim) Cleanup(f func()) { sim.cleanup = append(sim.cleanup, f) }

// Stamp returns the next value of the run-global event sequence number.
func (sim *Sim) Stamp() int64 {
	verifsim.RaceDisable() // the counter must not order program goroutines for the race detector
	v := sim.stamp.Add(1)
	verifsim.RaceEnable()
	return v
}

// Now returns elapsed simulated time.
func (sim *Sim) Now() time.Duration { return time.Since(sim.start) }

func (sim *Sim) Logf(format string, a ...any) { sim.S.Logf(format, a...) }

// Violate records a violation.
func (sim *Sim) Violate(prop, class string, attrs map[string]string, format string, a ...any) {
	sim.Res.Violations = append(sim.Res.Violations, Violation{
		Property: prop, Class: class, Attrs: attrs, Step: sim.S.Steps, Msg: fmt.Sprintf(format, a...),
	})
	sim.S.Logf("VIOLATION %s/%s: %s", prop, class, fmt.Sprintf(format, a...))
}

// Go starts a harness actor goroutine under a stable name.
func (sim *Sim) Go(name string, f func()) {
	go func() {
		verifsim.NameMe(name)
		verifsim.Yield(name)
		f()
		verifsim.HarnessSync()
	}()
}

// DriveStatus is the reason Drive returned.
type DriveStatus int

const (
	Quiescent DriveStatus = iota // nothing parked: every goroutine is blocked on a channel, timer or has exited
	Deadlock                     // goroutines parked, all waiting for simulated locks
	StepLimit
)

// Drive schedules until nothing is parked any more.
func (sim *Sim) Drive() DriveStatus {
	for {
		if sim.S.Steps >= sim.maxSteps {
			sim.stuck = true
			return StepLimit
		}
		st, _ := sim.S.Step()
		switch st {
		case verifsim.Idle:
			return Quiescent
		case verifsim.LockDeadlock:
			return Deadlock
		}
	}
}

// Advance moves the simulated clock by d in chunks, scheduling everything the
// timers wake up after each chunk. Returns the status of the last Drive.
func (sim *Sim) Advance(d time.Duration) DriveStatus {
	chunk := 250 * time.Millisecond
	if d/200 > chunk {
		chunk = d / 200
	}
	st := Quiescent
	for d > 0 {
		c := chunk
		if c > d {
			c = d
		}
		time.Sleep(c)
		d -= c
		st = sim.Drive()
		if st != Quiescent {
			return st
		}
	}
	return st
}

// Goroutines returns the stacks of all goroutines of the process that belong
// to the current bubble, except the caller, keyed by goroutine header.
func BubbleGoroutines() []string {
	buf := make([]byte, 1<<20)
	for {
		n := runtime.Stack(buf, true)
		if n < len(buf) {
			buf = buf[:n]
			break
		}
		buf = make([]byte, 2*len(buf))
	}
	var out []string
	for i, g := range strings.Split(string(buf), "\n\n") {
		if i == 0 {
			continue // the caller
		}
		if !strings.Contains(strings.SplitN(g, "\n", 2)[0], "synctest bubble") {
			continue
		}
		out = append(out, g)
	}
	return out
}

// detReader is the deterministic randomness source installed into google/uuid
// for the duration of a run (router and prometheus session keys).
type detReader struct {
	mu sync.Mutex
	r  prng
}

func (d *detReader) Read(p []byte) (int, error) {
	d.mu.Lock()
	defer d.mu.Unlock()
	for i := range p {
		p[i] = byte(d.r.next())
	}
	return len(p), nil
}

var bubbleRe = regexp.MustCompile(`synctest bubble (\d+)`)

func leakSummary() string {
	var fr []string
	gs := BubbleGoroutines()
	maxB := 0
	bub := func(g string) int {
		m := bubbleRe.FindStringSubmatch(strings.SplitN(g, "\n", 2)[0])
		if m == nil {
			return -1
		}
		n, _ := strconv.Atoi(m[1])
		return n
	}
	for _, g := range gs {
		if b := bub(g); b > maxB {
			maxB = b
		}
	}
	for _, g := range gs {
		if bub(g) != maxB {
			continue // left over from an earlier run of this process
		}
		lines := strings.Split(g, "\n")
		top := ""
		for _, l := range lines[1:] {
			l = strings.TrimSpace(l)
			if strings.Contains(l, "mocrelay") && !strings.Contains(l, "verifsim") && !strings.HasPrefix(l, "/") && !strings.Contains(l, ".go:") {
				top = l
				break
			}
		}
		if top != "" {
			if i := strings.Index(top, "("); i > 0 {
				top = top[:i]
			}
			fr = append(fr, top)
		}
	}
	sort.Strings(fr)
	if len(fr) > 6 {
		fr = fr[:6]
	}
	return strings.Join(fr, ", ")
}

// Run executes body inside a fresh bubble under schedule sch.
func Run(t *testing.T, sch Schedule, maxSteps int, body func(sim *Sim)) (res *Result) {
	res = &Result{}
	defer func() {
		if p := recover(); p != nil {
			msg := fmt.Sprint(p)
			if os.Getenv("VERIF_DEBUG") != "" {
				buf := make([]byte, 64<<10)
				buf = buf[:runtime.Stack(buf, true)]
				fmt.Fprintf(os.Stderr, "PANIC %v\n%s\n", p, buf)
			}
			if strings.Contains(msg, "deadlock") && strings.Contains(msg, "bubble") {
				// goroutines of the bubble were still blocked when the run ended:
				// that is the C13 property (sessions release everything), whichever
				// engine observed it
				res.Violations = append(res.Violations, Violation{Property: "C13", Class: "goroutine-leak",
					Step: res.Stats.Steps, Msg: "goroutines still blocked after the run was torn down: " + leakSummary()})
			} else {
				res.Harness = "panic: " + msg
			}
		}
	}()
	// the simulator's sync.Pool (tools/cmd/rtoverlay) keeps what is put into it:
	// every run starts with empty pools, like a fresh process
	sync.VerifResetPools()
	synctest.Test(t, func(t *testing.T) {
		s := verifsim.New()
		s.Wait = synctest.Wait
		sim := &Sim{T: t, S: s, Res: res, start: time.Now(), maxSteps: maxSteps}
		full := os.Getenv("VERIF_FULLTRACE") != ""
		if full {
			s.SetTraceCap(1 << 20)
		}
		s.Choose = sch.chooser(&res.Stats)
		uuid.SetRand(&detReader{r: prng{x: 0x5eed ^ sch.Seed*31}})
		defer uuid.SetRand(nil)
		s.SetMapSeed(sch.MapSeed)
		s.Activate(sch.SelMode)
		defer func() {
			// oracles iterate over maps: make the list independent of that order
			sort.SliceStable(res.Violations, func(i, j int) bool {
				a, b := res.Violations[i], res.Violations[j]
				if a.Property != b.Property {
					return a.Property < b.Property
				}
				if a.Class != b.Class {
					return a.Class < b.Class
				}
				if a.Step != b.Step {
					return a.Step < b.Step
				}
				return a.Msg < b.Msg
			})
			res.Stats.Steps = s.Steps
			res.Stats.Switches = s.Switches
			res.Stats.SchedHash = s.ScheduleHash()
			res.Stats.SimTime = time.Since(sim.start)
			if full {
				res.Trace = s.Trace(1 << 20)
			} else if len(res.Violations) > 0 || res.Harness != "" || sim.stuck {
				res.Trace = s.Trace(200)
			}
			if sim.stuck && res.Harness == "" {
				res.Harness = fmt.Sprintf("step limit %d reached; parked: %v", maxSteps, s.ParkedNames())
			}
			s.Deactivate()
		}()
		func() {
			defer func() {
				if p := recover(); p != nil {
					buf := make([]byte, 16<<10)
					buf = buf[:runtime.Stack(buf, false)]
					// whose panic? The frame that panicked comes right after the
					// runtime's own frames: code of the system under test called
					// directly by the driver (a store, a query) is a violation of the
					// property being checked (class crash), anything else is trouble
					// of the machinery
					if fr := panickingFrame(string(buf)); strings.Contains(fr, "github.com/high-moctane/mocrelay") && !strings.Contains(fr, "/verifsim.") {
						prop := CurrentProperty
						if prop == "" {
							prop = "?"
						}
						sim.Violate(prop, "crash", nil, "panic in %s: %v", fr, p)
					} else {
						res.Harness = fmt.Sprintf("panic in run body: %v\n%s", p, buf)
					}
				}
			}()
			body(sim)
		}()
		for i := len(sim.cleanup) - 1; i >= 0; i-- {
			sim.cleanup[i]()
		}
		sim.maxSteps += 20000
		sim.Drive()
	})
	return res
}
