package simrt

import (
	"bufio"
	"context"
	"fmt"
	"io"
	"net"
	"net/http"
	"sync"
	"sync/atomic"
	"time"

	"github.com/coder/websocket"
	"github.com/high-moctane/mocrelay/verifsim"
)

// A simulated TCP connection between a real coder/websocket client and the
// real Relay.ServeHTTP (reached through ServeMux): two in-memory pipes joined
// by two pump goroutines. Every chunk a pump forwards is a scheduler decision;
// chunk size (= the connection's buffering), stall and reset are faults.
// Loss, duplication and reordering are not injected: TCP does not exhibit them.

type SimConnCfg struct {
	Chunk      int   `json:"chunk"`                  // bytes forwarded per step and buffered per direction (1..65536)
	ResetAtC2S int64 `json:"reset_at_c2s,omitempty"` // reset after that many client-to-server bytes (0: never)
}

// timedConn records when writes start and complete (server side).
type timedConn struct {
	net.Conn
	mu         sync.Mutex
	writeStart time.Time // start of the write in progress (zero: none)
	writing    bool
}

func (c *timedConn) Write(p []byte) (int, error) {
	c.mu.Lock()
	c.writing = true
	c.writeStart = time.Now()
	c.mu.Unlock()
	n, err := c.Conn.Write(p)
	c.mu.Lock()
	c.writing = false
	c.mu.Unlock()
	return n, err
}

// BlockedSince returns the start of a write that is still in progress.
func (c *timedConn) BlockedSince() (time.Time, bool) {
	c.mu.Lock()
	defer c.mu.Unlock()
	return c.writeStart, c.writing
}

// WSLink is one simulated connection.
type WSLink struct {
	Name      string
	sim       *Sim
	cfg       SimConnCfg
	Server    *timedConn // what the relay writes to / reads from
	clientEnd net.Conn
	s2cStall  atomic.Bool // the client side stops draining (peer stops reading)
	resume    chan struct{}
	Served    atomic.Bool // ServeHTTP returned
	ServedAt  time.Time
	BytesS2C  atomic.Int64
	BytesC2S  atomic.Int64
	closed    atomic.Bool
	cA, sA    net.Conn
	// ResetAtC2S > 0: the connection is reset once that many client-to-server
	// bytes have been forwarded (possibly in the middle of a frame).
	ResetAtC2S int64
	WasReset   atomic.Bool
}

// StallS2C makes the peer stop reading (server-to-client bytes are no longer
// drained). ResumeS2C undoes it.
func (l *WSLink) StallS2C() { l.s2cStall.Store(true) }
func (l *WSLink) ResumeS2C() {
	if l.s2cStall.Swap(false) {
		select {
		case l.resume <- struct{}{}:
		default:
		}
	}
}

// Reset closes both pipes abruptly (connection reset).
func (l *WSLink) Reset() {
	if !l.closed.Swap(true) {
		l.cA.Close()
		l.sA.Close()
		l.clientEnd.Close()
		l.Server.Conn.Close()
	}
}

func (l *WSLink) pump(name string, src, dst net.Conn, cnt *atomic.Int64, stallable bool) {
	verifsim.NameMe(name)
	buf := make([]byte, l.cfg.Chunk)
	for {
		verifsim.Yield(name)
		if stallable && l.s2cStall.Load() {
			<-l.resume
			continue
		}
		n, err := src.Read(buf)
		if n > 0 {
			off := 0
			for off < n {
				if stallable && l.s2cStall.Load() {
					<-l.resume
				}
				end := n
				if !stallable && l.ResetAtC2S > 0 {
					if left := l.ResetAtC2S - cnt.Load(); left < int64(end-off) {
						end = off + int(left)
					}
				}
				m, werr := dst.Write(buf[off:end])
				off += m
				cnt.Add(int64(m))
				if werr != nil {
					src.Close()
					return
				}
				if !stallable && l.ResetAtC2S > 0 && cnt.Load() >= l.ResetAtC2S {
					l.WasReset.Store(true)
					l.Reset()
					return
				}
			}
		}
		if err != nil {
			dst.Close()
			return
		}
	}
}

type hijackWriter struct {
	hdr    http.Header
	link   *WSLink
	status chan int
	once   sync.Once
	body   []byte
}

func (w *hijackWriter) Header() http.Header { return w.hdr }
func (w *hijackWriter) Write(b []byte) (int, error) {
	w.WriteHeader(200)
	w.body = append(w.body, b...)
	return len(b), nil
}
func (w *hijackWriter) WriteHeader(code int) {
	w.once.Do(func() { w.status <- code })
}
func (w *hijackWriter) Hijack() (net.Conn, *bufio.ReadWriter, error) {
	c := w.link.Server
	return c, bufio.NewReadWriter(bufio.NewReader(c), bufio.NewWriter(c)), nil
}

type wsTransport struct {
	sim     *Sim
	handler http.Handler
	cfg     SimConnCfg
	link    *WSLink
	name    string
	ctx     context.Context
}

func (t *wsTransport) RoundTrip(req *http.Request) (*http.Response, error) {
	// client <-> cB ... pumps ... sB <-> server
	cA, cB := net.Pipe()
	sA, sB := net.Pipe()
	l := &WSLink{Name: t.name, sim: t.sim, cfg: t.cfg, ResetAtC2S: t.cfg.ResetAtC2S, clientEnd: cA, Server: &timedConn{Conn: sA}, resume: make(chan struct{}, 1), cA: cB, sA: sB}
	t.link = l
	go l.pump(t.name+".c2s", cB, sB, &l.BytesC2S, false)
	go l.pump(t.name+".s2c", sB, cB, &l.BytesS2C, true)
	w := &hijackWriter{hdr: http.Header{}, link: l, status: make(chan int, 1)}
	sreq := req.Clone(t.ctx)
	sreq.RemoteAddr = "sim:0"
	go func() {
		verifsim.NameMe(t.name + ".http")
		t.handler.ServeHTTP(w, sreq)
		w.WriteHeader(200)
		l.ServedAt = time.Now()
		l.Served.Store(true)
	}()
	code := <-w.status
	resp := &http.Response{StatusCode: code, Status: fmt.Sprintf("%d %s", code, http.StatusText(code)), Header: w.hdr.Clone(), Proto: "HTTP/1.1", ProtoMajor: 1, ProtoMinor: 1, Request: req}
	if code == http.StatusSwitchingProtocols {
		resp.Body = cA
	} else {
		resp.Body = io.NopCloser(&emptyReader{})
	}
	return resp, nil
}

type emptyReader struct{}

func (emptyReader) Read([]byte) (int, error) { return 0, io.EOF }

// DialWS opens a WebSocket session to handler (normally a *mocrelay.ServeMux)
// over a simulated connection. srvCtx is the request context the server sees.
func (sim *Sim) DialWS(ctx, srvCtx context.Context, name string, handler http.Handler, cfg SimConnCfg) (*websocket.Conn, *WSLink, error) {
	if cfg.Chunk < 1 {
		cfg.Chunk = 4096
	}
	tr := &wsTransport{sim: sim, handler: handler, cfg: cfg, name: name, ctx: srvCtx}
	c, _, err := websocket.Dial(ctx, "ws://relay.sim/", &websocket.DialOptions{HTTPClient: &http.Client{Transport: tr}})
	if err != nil {
		return nil, tr.link, err
	}
	c.SetReadLimit(1 << 20)
	return c, tr.link, nil
}
