#!/bin/bash
# run every check's thorough tier once (VERIF_SEED from env), print a summary line per property
cd "$(dirname "$0")/.."
for p in C03 C04 C05 C06 C07 C08 C09 C12 C13 C14 C15 C16 C17 C18 C19; do
  start=$(date +%s)
  ./check $p thorough > thorough-$p-${VERIF_SEED:-1}.log 2>&1; rc=$?
  echo "$p seed=${VERIF_SEED:-1} exit=$rc $(( $(date +%s) - start ))s :: $(tail -1 thorough-$p-${VERIF_SEED:-1}.log)"
  grep -E "VIOLATION|KNOWN-FINDING|TROUBLE" thorough-$p-${VERIF_SEED:-1}.log | head -5
done
