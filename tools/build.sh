#!/bin/bash
# build.sh <workdir>: scratch copy of /repo's working tree -> inject verifsim and
# white-box accessors -> instrument -> build the simulator test binary
# <workdir>/sim.test. Exit 2 on any trouble (never a VIOLATION).
set -u
W="$1"
REPO="${VERIF_REPO:-/repo}"
V="${VERIF_HOME:-/verif}"
export GOFLAGS=-mod=mod GOPROXY=off GOSUMDB=off GOTOOLCHAIN=local CGO_ENABLED=1
export PATH=/opt/veriftools/go1.26.8/bin:$PATH
fail() { echo "BUILD-TROUBLE: $*" >&2; exit 2; }
[ -x $V/bin/instrument ] && [ -x $V/bin/rtoverlay ] && [ -f $V/build/rt/overlay.json ] || $V/setup.sh tools || fail "setup"
rm -rf "$W" && mkdir -p "$W" || fail "mkdir"
rsync -a --exclude .git "$REPO"/ "$W/repo/" || fail "copy"
mkdir -p "$W/repo/verifsim" && cp $V/tools/verifsim/*.go $V/tools/verifsim/*.s "$W/repo/verifsim/" || fail "inject verifsim"
cp $V/tools/inject/root_verif_export.go "$W/repo/verif_export.go" || fail "inject"
cp $V/tools/inject/sqlite_verif_export.go "$W/repo/handler/sqlite/verif_export.go" || fail "inject"
NOYIELD="${VERIF_NOYIELD:-message.go,nip11.go,server.go,query.go,migrate.go,logger.go,verif_export.go}"
YIELDFUNCS="${VERIF_YIELDFUNCS:-message.go:Verify,message.go:Serialize}"
(cd "$W/repo" && $V/bin/instrument -dir "$W/repo" -noyield "$NOYIELD" -yieldfuncs "$YIELDFUNCS" . ./handler/sqlite ./middleware/prometheus) >"$W/instrument.log" 2>&1 || { cat "$W/instrument.log" >&2; fail "instrument (tree does not type-check?)"; }
mkdir -p "$W/sim" && cp -r $V/sim/. "$W/sim/" || fail "copy sim"
[ -f "$W/sim/go.sum" ] || cp "$REPO/go.sum" "$W/sim/go.sum"
(cd "$W/sim" && go test -c -trimpath -overlay $V/build/rt/overlay.json -o "$W/sim.test" ./props) >"$W/build.log" 2>&1 || { cat "$W/build.log" >&2; fail "go test -c"; }
if [ -n "${VERIF_RACE:-}" ]; then
  (cd "$W/sim" && go test -c -race -trimpath -overlay $V/build/rt/overlay.json -o "$W/sim.race.test" ./props) >"$W/build-race.log" 2>&1 || { cat "$W/build-race.log" >&2; fail "go test -c -race"; }
fi
exit 0
