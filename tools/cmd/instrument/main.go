// instrument rewrites, in place, the non-test Go files of the given packages of
// a SCRATCH COPY of high-moctane/mocrelay for the cooperative scheduler:
//
//   - sync.Mutex / sync.RWMutex         -> verifsim.Mutex / verifsim.RWMutex
//   - `range m` with m of map type      -> `range verifsim.RangeMap(m)`
//   - before every statement of every function body (block, case and comm
//     clause lists) of the files not listed in -noyield:
//     verifsim.Yield("<file>:<line>")
//
// The rewrite is a textual splice at token positions, so line numbers of the
// original sources are preserved exactly.
//
// Usage: instrument -dir <scratch repo> [-noyield a.go,b.go] <pkg pattern>...
package main

import (
	"flag"
	"fmt"
	"go/ast"
	"go/token"
	"go/types"
	"os"
	"path/filepath"
	"sort"
	"strings"

	"golang.org/x/tools/go/packages"
)

type edit struct {
	off  int
	text string
	del  int // bytes to delete at off before inserting
	ord  int
}

func main() {
	dir := flag.String("dir", "", "scratch copy of the repository")
	noyield := flag.String("noyield", "", "comma separated file base names that get no yields")
	yieldfuncs := flag.String("yieldfuncs", "", "comma separated file.go:Func entries: functions of a -noyield file that get yields all the same")
	modpath := flag.String("mod", "github.com/high-moctane/mocrelay", "module path")
	flag.Parse()
	if *dir == "" || flag.NArg() == 0 {
		fmt.Fprintln(os.Stderr, "usage: instrument -dir <scratch repo> <pkg pattern>...")
		os.Exit(2)
	}
	skip := map[string]bool{}
	for _, f := range strings.Split(*noyield, ",") {
		if f != "" {
			skip[f] = true
		}
	}
	only := map[string]map[string]bool{}
	for _, e := range strings.Split(*yieldfuncs, ",") {
		if f, fn, ok := strings.Cut(e, ":"); ok {
			if only[f] == nil {
				only[f] = map[string]bool{}
			}
			only[f][fn] = true
		}
	}
	cfg := &packages.Config{
		Mode: packages.NeedName | packages.NeedFiles | packages.NeedCompiledGoFiles | packages.NeedSyntax |
			packages.NeedTypes | packages.NeedTypesInfo | packages.NeedImports,
		Dir:   *dir,
		Tests: false,
	}
	pkgs, err := packages.Load(cfg, flag.Args()...)
	if err != nil {
		fmt.Fprintln(os.Stderr, "instrument: load:", err)
		os.Exit(2)
	}
	bad := false
	for _, p := range pkgs {
		for _, e := range p.Errors {
			fmt.Fprintln(os.Stderr, "instrument:", e)
			bad = true
		}
	}
	if bad {
		os.Exit(2)
	}
	nY, nM, nR, nA := 0, 0, 0, 0
	for _, p := range pkgs {
		if strings.HasSuffix(p.PkgPath, "/verifsim") {
			continue
		}
		for i, f := range p.Syntax {
			path := p.CompiledGoFiles[i]
			if strings.HasSuffix(path, "_test.go") || !strings.HasPrefix(path, *dir) {
				continue
			}
			src, err := os.ReadFile(path)
			if err != nil {
				fmt.Fprintln(os.Stderr, "instrument:", err)
				os.Exit(2)
			}
			var edits []edit
			add := func(pos token.Pos, text string, del int) {
				edits = append(edits, edit{off: p.Fset.Position(pos).Offset, text: text, del: del, ord: len(edits)})
			}
			base := filepath.Base(path)
			doYield := !skip[base]
			var allowed [][2]token.Pos // bodies of the -yieldfuncs functions of a -noyield file
			if !doYield && only[base] != nil {
				for _, d := range f.Decls {
					if fd, ok := d.(*ast.FuncDecl); ok && fd.Body != nil && only[base][fd.Name.Name] {
						allowed = append(allowed, [2]token.Pos{fd.Body.Pos(), fd.Body.End()})
					}
				}
			}
			usesSync := ""
			noWrap := map[*ast.CallExpr]bool{} // the call of a go / defer statement is not evaluated where it stands
			ast.Inspect(f, func(n ast.Node) bool {
				switch x := n.(type) {
				case *ast.GoStmt:
					noWrap[x.Call] = true
				case *ast.DeferStmt:
					noWrap[x.Call] = true
				}
				switch x := n.(type) {
				case *ast.SelectorExpr:
					if id, ok := x.X.(*ast.Ident); ok {
						if pn, ok := p.TypesInfo.Uses[id].(*types.PkgName); ok && pn.Imported().Path() == "sync" {
							usesSync = pn.Name()
							if x.Sel.Name == "Mutex" || x.Sel.Name == "RWMutex" {
								add(x.Pos(), "verifsim."+x.Sel.Name, int(x.End()-x.Pos()))
								nM++
							}
						}
					}
				case *ast.RangeStmt:
					if t := p.TypesInfo.TypeOf(x.X); t != nil {
						if _, ok := t.Underlying().(*types.Map); ok {
							add(x.X.Pos(), "verifsim.RangeMap(", 0)
							add(x.X.End(), ")", 0)
							nR++
						}
					}
				}
				if !doYield {
					in := false
					if n != nil {
						for _, a := range allowed {
							if n.Pos() >= a[0] && n.End() <= a[1] {
								in = true
							}
						}
					}
					if !in {
						return true
					}
				}
				// a value-returning call into sync/atomic, wherever it stands in an
				// expression, is followed by a preemption point: what is computed from
				// an atomic's value and what is done with it are separate steps even
				// inside one statement (gauge.Set(float64(n.Add(1))))
				if ce, ok := n.(*ast.CallExpr); ok && !noWrap[ce] {
					if se, ok := ce.Fun.(*ast.SelectorExpr); ok {
						if fn, ok := p.TypesInfo.Uses[se.Sel].(*types.Func); ok && fn.Pkg() != nil && fn.Pkg().Path() == "sync/atomic" {
							if tv, ok := p.TypesInfo.Types[ce]; ok && tv.IsValue() {
								if _, tuple := tv.Type.(*types.Tuple); !tuple {
									pos := p.Fset.Position(ce.Pos())
									add(ce.Pos(), "verifsim.YieldVal(", 0)
									add(ce.End(), fmt.Sprintf(", %q)", fmt.Sprintf("%s:%d:atomic", base, pos.Line)), 0)
									nA++
								}
							}
						}
					}
				}
				var list []ast.Stmt
				switch x := n.(type) {
				case *ast.BlockStmt:
					list = x.List
				case *ast.CaseClause:
					list = x.Body
				case *ast.CommClause:
					list = x.Body
				}
				for _, s := range list {
					switch s.(type) {
					case *ast.EmptyStmt, *ast.CaseClause, *ast.CommClause:
						continue
					}
					pos := p.Fset.Position(s.Pos())
					add(s.Pos(), fmt.Sprintf("verifsim.Yield(%q); ", fmt.Sprintf("%s:%d", base, pos.Line)), 0)
					nY++
				}
				return true
			})
			if len(edits) == 0 {
				continue
			}
			// import on the package clause line keeps line numbers intact
			imp := fmt.Sprintf("; import verifsim %q", *modpath+"/verifsim")
			tail := "\nvar _ = verifsim.Active\n"
			if usesSync != "" {
				tail += "var _ " + usesSync + ".Locker\n"
			}
			add(f.Name.End(), imp, 0)
			add(f.End(), tail, 0)
			sort.SliceStable(edits, func(i, j int) bool {
				if edits[i].off != edits[j].off {
					return edits[i].off < edits[j].off
				}
				return edits[i].ord < edits[j].ord
			})
			var out []byte
			last := 0
			for _, e := range edits {
				if e.off < last {
					fmt.Fprintf(os.Stderr, "instrument: overlapping edit in %s at %d\n", path, e.off)
					os.Exit(2)
				}
				out = append(out, src[last:e.off]...)
				out = append(out, e.text...)
				last = e.off + e.del
			}
			out = append(out, src[last:]...)
			if err := os.WriteFile(path, out, 0o644); err != nil {
				fmt.Fprintln(os.Stderr, "instrument:", err)
				os.Exit(2)
			}
		}
	}
	fmt.Printf("instrument: %d yields, %d mutex types, %d map ranges, %d atomic results\n", nY, nM, nR, nA)
}
