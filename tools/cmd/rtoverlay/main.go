// rtoverlay generates a `go build -overlay` file that patches the standard
// library of the toolchain in use (go1.26.8) in exactly three ways (3: sync.Pool,
// see poolFile):
//
//  1. runtime/select.go: the expression that randomises the poll order of a
//     select statement consults a hook variable first. With the hook unset the
//     behaviour is byte-for-byte the original.
//  2. a new file runtime/verif_hook.go exporting (via linkname) the hook setter
//     and the current goroutine id.
//
// Usage: rtoverlay <GOROOT> <outdir>
// Writes <outdir>/select.go, <outdir>/verif_hook.go, <outdir>/overlay.json.
package main

import (
	"encoding/json"
	"fmt"
	"os"
	"path/filepath"
	"strings"
)

const anchor = "j := cheaprandn(uint32(norder + 1))"
const patched = "var j uint32; if verifSelectHook != nil { j = verifSelectHook(uint32(norder + 1)) } else { j = cheaprandn(uint32(norder + 1)) }"

const hookFile = `package runtime

import _ "unsafe"

// verifSelectHook, when non-nil, decides the poll order of every select
// statement: it is called with n = (number of channels seen so far)+1 and must
// return a value in [0,n). Returning n-1 always gives source order.
var verifSelectHook func(n uint32) uint32

//go:linkname verifSetSelectHook
func verifSetSelectHook(f func(n uint32) uint32) { verifSelectHook = f }

//go:linkname verifGoid
func verifGoid() uint64 { return getg().goid }
`

// poolFile replaces sync/pool.go: sync.Pool as shipped hands items out per P and
// is emptied by the garbage collector, two sources of nondeterminism no schedule
// controls. The simulator's Pool is a LIFO stack per pool (the most recently
// returned item is handed out next, the order most likely to expose an item
// that is still in use) that only VerifResetPools empties; the simulator calls
// it before every run, so a run never sees items of an earlier one.
const poolFile = `package sync

type Pool struct {
	noCopy noCopy

	mu    Mutex
	items []any
	reg   bool

	// New optionally specifies a function to generate
	// a value when Get would otherwise return nil.
	New func() any
}

var verifPools struct {
	mu  Mutex
	all []*Pool
}

// Put adds x to the pool.
func (p *Pool) Put(x any) {
	if x == nil {
		return
	}
	p.mu.Lock()
	if !p.reg {
		p.reg = true
		verifPools.mu.Lock()
		verifPools.all = append(verifPools.all, p)
		verifPools.mu.Unlock()
	}
	p.items = append(p.items, x)
	p.mu.Unlock()
}

// Get hands out the most recently returned item, or New().
func (p *Pool) Get() any {
	p.mu.Lock()
	if n := len(p.items); n > 0 {
		x := p.items[n-1]
		p.items[n-1] = nil
		p.items = p.items[:n-1]
		p.mu.Unlock()
		return x
	}
	p.mu.Unlock()
	if p.New != nil {
		return p.New()
	}
	return nil
}

// VerifResetPools empties every pool of the process and forgets them (a pool
// registers again with its next Put), so that pools embedded in objects of a
// finished run do not keep those objects alive.
func VerifResetPools() {
	verifPools.mu.Lock()
	all := verifPools.all
	verifPools.all = nil
	verifPools.mu.Unlock()
	for _, p := range all {
		p.mu.Lock()
		clear(p.items)
		p.items = nil
		p.reg = false
		p.mu.Unlock()
	}
}
`

func main() {
	if len(os.Args) != 3 {
		fmt.Fprintln(os.Stderr, "usage: rtoverlay <GOROOT> <outdir>")
		os.Exit(2)
	}
	goroot, out := os.Args[1], os.Args[2]
	src := filepath.Join(goroot, "src", "runtime", "select.go")
	b, err := os.ReadFile(src)
	if err != nil {
		fmt.Fprintln(os.Stderr, "rtoverlay:", err)
		os.Exit(2)
	}
	s := string(b)
	if strings.Count(s, anchor) != 1 {
		fmt.Fprintf(os.Stderr, "rtoverlay: anchor %q found %d times in %s; refusing to patch\n", anchor, strings.Count(s, anchor), src)
		os.Exit(2)
	}
	s = strings.Replace(s, anchor, patched, 1)
	if err := os.MkdirAll(out, 0o755); err != nil {
		fmt.Fprintln(os.Stderr, "rtoverlay:", err)
		os.Exit(2)
	}
	must(os.WriteFile(filepath.Join(out, "select.go"), []byte(s), 0o644))
	must(os.WriteFile(filepath.Join(out, "verif_hook.go"), []byte(hookFile), 0o644))
	must(os.WriteFile(filepath.Join(out, "pool.go"), []byte(poolFile), 0o644))
	ov := map[string]map[string]string{"Replace": {
		src: filepath.Join(out, "select.go"),
		filepath.Join(goroot, "src", "sync", "pool.go"): filepath.Join(out, "pool.go"),
		filepath.Join(goroot, "src", "runtime", "verif_hook.go"): filepath.Join(out, "verif_hook.go"),
	}}
	j, _ := json.MarshalIndent(ov, "", " ")
	must(os.WriteFile(filepath.Join(out, "overlay.json"), j, 0o644))
}

func must(err error) {
	if err != nil {
		fmt.Fprintln(os.Stderr, "rtoverlay:", err)
		os.Exit(2)
	}
}
