// rtoverlay generates a `go build -overlay` file that patches the runtime of the
// toolchain in use (go1.26.8) in exactly two ways:
//
//  1. runtime/select.go: the expression that randomises the poll order of a
//     select statement consults a hook variable first. With the hook unset the
//     behaviour is byte-for-byte the original.
//  2. a new file runtime/verif_hook.go exporting (via linkname) the hook setter
//     and the current goroutine id.
//
// Usage: rtoverlay <GOROOT> <outdir>
// Writes <outdir>/select.go, <outdir>/verif_hook.go, <outdir>/overlay.json.
package main

import (
	"encoding/json"
	"fmt"
	"os"
	"path/filepath"
	"strings"
)

const anchor = "j := cheaprandn(uint32(norder + 1))"
const patched = "var j uint32; if verifSelectHook != nil { j = verifSelectHook(uint32(norder + 1)) } else { j = cheaprandn(uint32(norder + 1)) }"

const hookFile = `package runtime

import _ "unsafe"

// verifSelectHook, when non-nil, decides the poll order of every select
// statement: it is called with n = (number of channels seen so far)+1 and must
// return a value in [0,n). Returning n-1 always gives source order.
var verifSelectHook func(n uint32) uint32

//go:linkname verifSetSelectHook
func verifSetSelectHook(f func(n uint32) uint32) { verifSelectHook = f }

//go:linkname verifGoid
func verifGoid() uint64 { return getg().goid }
`

func main() {
	if len(os.Args) != 3 {
		fmt.Fprintln(os.Stderr, "usage: rtoverlay <GOROOT> <outdir>")
		os.Exit(2)
	}
	goroot, out := os.Args[1], os.Args[2]
	src := filepath.Join(goroot, "src", "runtime", "select.go")
	b, err := os.ReadFile(src)
	if err != nil {
		fmt.Fprintln(os.Stderr, "rtoverlay:", err)
		os.Exit(2)
	}
	s := string(b)
	if strings.Count(s, anchor) != 1 {
		fmt.Fprintf(os.Stderr, "rtoverlay: anchor %q found %d times in %s; refusing to patch\n", anchor, strings.Count(s, anchor), src)
		os.Exit(2)
	}
	s = strings.Replace(s, anchor, patched, 1)
	if err := os.MkdirAll(out, 0o755); err != nil {
		fmt.Fprintln(os.Stderr, "rtoverlay:", err)
		os.Exit(2)
	}
	must(os.WriteFile(filepath.Join(out, "select.go"), []byte(s), 0o644))
	must(os.WriteFile(filepath.Join(out, "verif_hook.go"), []byte(hookFile), 0o644))
	ov := map[string]map[string]string{"Replace": {
		src: filepath.Join(out, "select.go"),
		filepath.Join(goroot, "src", "runtime", "verif_hook.go"): filepath.Join(out, "verif_hook.go"),
	}}
	j, _ := json.MarshalIndent(ov, "", " ")
	must(os.WriteFile(filepath.Join(out, "overlay.json"), j, 0o644))
}

func must(err error) {
	if err != nil {
		fmt.Fprintln(os.Stderr, "rtoverlay:", err)
		os.Exit(2)
	}
}
