// vrun is the orchestrator behind /verif/check: it rebuilds the simulator from
// /repo's current working tree, fans the seeded search out over worker
// processes, verifies determinism and replayability, applies the known-findings
// file and writes the evidence file.
//
// Exit codes: 0 property held on everything explored; 1 violation (with a
// `VIOLATION property=<id> replay=<path>` line); 2 trouble of the machinery
// itself (build, watchdog, divergence) - never a VIOLATION.
package main

import (
	"syscall"
	"bytes"
	"encoding/json"
	"fmt"
	"hash/fnv"
	"os"
	"os/exec"
	"path/filepath"
	"regexp"
	"runtime"
	"sort"
	"strconv"
	"strings"
	"sync"
	"time"
)

// V is the root of the verification tree (the directory of ./check).
var V = func() string {
	if v := os.Getenv("VERIF_HOME"); v != "" {
		return v
	}
	return "/verif"
}()

type violation struct {
	Property string            `json:"property"`
	Class    string            `json:"class"`
	Attrs    map[string]string `json:"attrs,omitempty"`
	Step     int               `json:"step"`
	Msg      string            `json:"msg"`
}

type replayFile struct {
	Property string          `json:"property"`
	Engine   string          `json:"engine"`
	Case     json.RawMessage `json:"case"`
	Expect   *violation      `json:"expect,omitempty"`
	Trace    []string        `json:"trace,omitempty"`
	Tree     string          `json:"tree,omitempty"`
	Seed     uint64          `json:"rapid_seed,omitempty"`
}

type workerOut struct {
	Property    string            `json:"property"`
	Engine      string            `json:"engine"`
	Worker      int               `json:"worker"`
	SeedFirst   uint64            `json:"seed_first"`
	SeedLast    uint64            `json:"seed_last"`
	Runs        int64             `json:"runs"`
	Completed   int64             `json:"completed"`
	Steps       int64             `json:"steps"`
	Switches    int64             `json:"switches"`
	Preempts    int64             `json:"preemptions"`
	SimTimeNs   int64             `json:"sim_time_ns"`
	WallS       float64           `json:"wall_s"`
	Faults      map[string]int64  `json:"faults"`
	Configured  map[string]int64  `json:"configured"`
	Probes      map[string]int64  `json:"probes"`
	Scheds      []uint64          `json:"scheds"`
	States      []uint64          `json:"states"`
	NonTrivial  []uint64          `json:"nontrivial"`
	Samples     []json.RawMessage `json:"samples"`
	KnownHits   map[string]int64  `json:"known_hits"`
	OtherProps  map[string]int64  `json:"other_props"`
	Failure     *replayFile       `json:"failure,omitempty"`
	Harness     []string          `json:"harness_errors,omitempty"`
	TraceHashes map[string]uint64 `json:"trace_hashes,omitempty"`
	Unconfirmed int64             `json:"unconfirmed,omitempty"`
}

type result struct {
	Violations []violation `json:"violations"`
	Harness    string      `json:"harness_error,omitempty"`
	Trace      []string    `json:"trace,omitempty"`
}

type known struct {
	Property string            `json:"property"`
	Class    string            `json:"class"`
	Attrs    map[string]string `json:"attrs,omitempty"`
	What     string            `json:"what"`
	Status   string            `json:"status"`
	Commit   string            `json:"commit,omitempty"`
	Probe    json.RawMessage   `json:"probe,omitempty"`
	Engine   string            `json:"engine,omitempty"`
}

func (k *known) matches(v violation) bool {
	if k.Status != "known" || k.Property != v.Property || k.Class != v.Class {
		return false
	}
	for a, w := range k.Attrs {
		if v.Attrs[a] != w {
			return false
		}
	}
	return true
}

type propCfg struct {
	Level       string
	QuickS      int
	ThoroughS   int
	Components  []string
	Stubs       []string
	Rule        string
	Assumptions []string
	// RaceEngines: engines that are additionally run from a -race build in
	// which the scheduler's own synchronisation is hidden from the detector
	// (deterministic happens-before race detection on serialised executions).
	RaceEngines []string
}

func trouble(format string, a ...any) {
	fmt.Fprintf(os.Stderr, "VERIF-TROUBLE: "+format+"\n", a...)
	os.Exit(2)
}

func main() {
	if len(os.Args) < 4 {
		fmt.Fprintln(os.Stderr, "usage: vrun check <ID> quick|thorough | vrun replay <ID> <file>")
		os.Exit(2)
	}
	switch os.Args[1] {
	case "check":
		check(os.Args[2], os.Args[3])
	case "replay":
		replayCmd(os.Args[2], os.Args[3])
	default:
		trouble("unknown command %s", os.Args[1])
	}
}

// simEnv is the environment of every simulator process: the global math/rand
// source is seeded deterministically (the repository uses it for the key seed
// of a fresh database).
func simEnv() []string {
	// asyncpreemptoff: goroutines of a run switch only where the scheduler or a
	// blocking operation makes them (signal-based preemption reordered arrivals
	// under load and, in go1.26.8, now and then left a preempted goroutine of a
	// synctest bubble runnable for ever while the driver sat in synctest.Wait)
	return append(os.Environ(), "GODEBUG=randautoseed=0,asyncpreemptoff=1")
}

func build(work string, race bool) {
	cmd := exec.Command(V+"/tools/build.sh", work)
	cmd.Env = os.Environ()
	if race {
		cmd.Env = append(cmd.Env, "VERIF_RACE=1")
	}
	cmd.Stderr = os.Stderr
	cmd.Stdout = os.Stderr
	if err := cmd.Run(); err != nil {
		os.RemoveAll(work)
		trouble("build failed: %v", err)
	}
}

func treeID() string {
	head, _ := exec.Command("git", "-C", "/repo", "rev-parse", "HEAD").Output()
	diff, _ := exec.Command("git", "-C", "/repo", "diff", "HEAD").Output()
	h := fnv.New64a()
	h.Write(diff)
	return fmt.Sprintf("%s+%016x", strings.TrimSpace(string(head)), h.Sum64())
}

// runReplay executes one replay file in a fresh process and returns its result.
func runReplay(work, prop, file string, cpu int) (*result, string, error) {
	out := filepath.Join(work, fmt.Sprintf("replay-%d.json", time.Now().UnixNano()))
	var stderr bytes.Buffer
	cmd := exec.Command(filepath.Join(work, "sim.test"), "-test.run", "TestProp", "-test.cpu", strconv.Itoa(cpu), "-test.timeout", "0",
		"-verif.prop="+prop, "-verif.replay="+file, "-verif.out="+out)
	cmd.Stderr = &stderr
	cmd.Stdout = &stderr
	cmd.Dir = work
	cmd.Env = simEnv()
	done := make(chan error, 1)
	go func() { done <- cmd.Run() }()
	select {
	case err := <-done:
		if err != nil {
			return nil, stderr.String(), err
		}
	case <-time.After(5 * time.Minute):
		cmd.Process.Kill()
		return nil, stderr.String(), fmt.Errorf("replay watchdog")
	}
	b, err := os.ReadFile(out)
	if err != nil {
		return nil, stderr.String(), err
	}
	var r result
	if err := json.Unmarshal(b, &r); err != nil {
		return nil, stderr.String(), err
	}
	return &r, stderr.String(), nil
}

var panicRe = regexp.MustCompile(`(?m)^(panic: .*|fatal error: .*)$`)

func firstPanic(stderr string) string {
	m := panicRe.FindString(stderr)
	if len(m) > 300 {
		m = m[:300]
	}
	return m
}

func loadKnown() []known {
	b, err := os.ReadFile(V + "/known_findings.json")
	if err != nil {
		return nil
	}
	var f struct {
		Findings []known `json:"findings"`
	}
	if err := json.Unmarshal(b, &f); err != nil {
		trouble("known_findings.json: %v", err)
	}
	return f.Findings
}

func replayCmd(id, file string) {
	work := fmt.Sprintf("/tmp/verif-work/%s-replay-%d", id, os.Getpid())
	defer os.RemoveAll(work)
	build(work, false)
	abs, _ := filepath.Abs(file)
	r, stderr, err := runReplay(work, id, abs, 1)
	if err != nil {
		if p := firstPanic(stderr); p != "" {
			fmt.Printf("replay crashed: %s\nVIOLATION property=%s replay=%s\n", p, id, abs)
			os.RemoveAll(work)
			os.Exit(1)
		}
		os.RemoveAll(work)
		trouble("replay failed: %v\n%s", err, stderr)
	}
	b, _ := json.MarshalIndent(r, "", " ")
	fmt.Println(string(b))
	kn := loadKnown()
	for _, v := range r.Violations {
		if v.Property != id {
			continue
		}
		isKnown := false
		for i := range kn {
			if kn[i].matches(v) {
				fmt.Printf("KNOWN-FINDING: property=%s %s\n", id, kn[i].What)
				isKnown = true
			}
		}
		if !isKnown {
			fmt.Printf("VIOLATION property=%s replay=%s\n", id, abs)
			os.RemoveAll(work)
			os.Exit(1)
		}
	}
}

func check(id, tier string) {
	cfg, ok := props[id]
	if !ok {
		trouble("no check for property %s", id)
	}
	if tier != "quick" && tier != "thorough" {
		trouble("tier must be quick or thorough")
	}
	seed := uint64(1)
	if s := os.Getenv("VERIF_SEED"); s != "" {
		v, err := strconv.ParseUint(s, 10, 64)
		if err != nil {
			trouble("VERIF_SEED: %v", err)
		}
		seed = v
	}
	start := time.Now()
	work := fmt.Sprintf("/tmp/verif-work/%s-%s-%d", id, tier, os.Getpid())
	defer os.RemoveAll(work)
	exit := func(code int) {
		os.RemoveAll(work)
		os.Exit(code)
	}
	build(work, len(cfg.RaceEngines) > 0)
	tree := treeID()
	kn := loadKnown()

	budget := time.Duration(cfg.QuickS) * time.Second
	if tier == "thorough" {
		budget = time.Duration(cfg.ThoroughS) * time.Second
	}
	if s := os.Getenv("VERIF_BUDGET_S"); s != "" {
		if v, err := strconv.Atoi(s); err == nil {
			budget = time.Duration(v) * time.Second
		}
	}
	workers := runtime.NumCPU()
	if s := os.Getenv("VERIF_WORKERS"); s != "" {
		if v, err := strconv.Atoi(s); err == nil && v > 0 {
			workers = v
		}
	}

	// ---- phase 0: probes of the known-findings file. A `known` entry is
	// re-confirmed (KNOWN-FINDING line when it still reproduces); the probe of a
	// `fixed` entry is a regression case: if the violation is back it is
	// reported like any other.
	knownPrinted := map[string]bool{}
	regressions := 0
	for i := range kn {
		k := &kn[i]
		if k.Property != id || len(k.Probe) == 0 || (k.Status != "known" && k.Status != "fixed") {
			continue
		}
		pf := filepath.Join(work, fmt.Sprintf("probe-%d.json", i))
		rf, _ := json.MarshalIndent(&replayFile{Property: id, Engine: k.Engine, Case: k.Probe, Tree: tree}, "", " ")
		os.WriteFile(pf, rf, 0o644)
		r, stderr, err := runReplay(work, id, pf, 1)
		if err != nil {
			if p := firstPanic(stderr); p != "" && k.Status == "fixed" {
				r = &result{Violations: []violation{{Property: id, Class: "crash", Msg: p}}}
			} else {
				trouble("probe %d of known_findings.json failed to run: %v\n%s", i, err, tail(stderr, 30))
			}
		}
		for _, v := range r.Violations {
			if v.Property != id {
				continue
			}
			if k.Status == "known" {
				if k.matches(v) && !knownPrinted[k.What] {
					fmt.Printf("KNOWN-FINDING: property=%s %s\n", id, k.What)
					knownPrinted[k.What] = true
				}
				continue
			}
			isKnown := false
			for j := range kn {
				if kn[j].matches(v) {
					isKnown = true
				}
			}
			if isKnown {
				continue
			}
			dir := filepath.Join(V, "replays", id)
			os.MkdirAll(dir, 0o755)
			path := filepath.Join(dir, fmt.Sprintf("regression-%d-%s.json", i, v.Class))
			vv := v
			rf, _ := json.MarshalIndent(&replayFile{Property: id, Engine: k.Engine, Case: k.Probe, Expect: &vv, Tree: tree, Trace: r.Trace}, "", " ")
			os.WriteFile(path, rf, 0o644)
			fmt.Printf("violation (regression of a fixed finding): %s/%s: %s\n", v.Property, v.Class, v.Msg)
			fmt.Printf("VIOLATION property=%s replay=%s\n", id, path)
			regressions++
			break
		}
	}

	// ---- phase 1: seeded search, one OS process per worker
	shrinkSlack := 90 * time.Second
	if tier == "thorough" {
		shrinkSlack = 7 * time.Minute
	}
	res := make([]wres, workers)
	var wg sync.WaitGroup
	for w := 0; w < workers; w++ {
		wg.Add(1)
		go func(w int) {
			defer wg.Done()
			out := filepath.Join(work, fmt.Sprintf("out-%d.json", w))
			args := []string{"-test.run", "TestProp", "-test.cpu", "1", "-test.timeout", "0",
				"-verif.prop=" + id, "-verif.tier=" + tier, "-verif.budget=" + budget.String(),
				"-verif.worker=" + strconv.Itoa(w), "-verif.seed=" + strconv.FormatUint(seed, 10),
				"-verif.out=" + out, "-verif.known=" + V + "/known_findings.json",
				"-verif.cur=" + filepath.Join(work, fmt.Sprintf("cur-%d.json", w))}
			if w == 0 {
				args = append(args, "-verif.det=24")
			}
			var stderr bytes.Buffer
			cmd := exec.Command(filepath.Join(work, "sim.test"), args...)
			cmd.Dir = work
			cmd.Env = simEnv()
			cmd.Stderr = &stderr
			cmd.Stdout = &stderr
			done := make(chan error, 1)
			go func() { done <- cmd.Run() }()
			select {
			case err := <-done:
				res[w].err = err
			case <-time.After(budget + shrinkSlack + 60*time.Second):
				// goroutine stacks first (diagnosis of a hang), then the kill
				cmd.Process.Signal(syscall.SIGQUIT)
				select {
				case <-done:
				case <-time.After(5 * time.Second):
					cmd.Process.Kill()
					<-done
				}
				res[w].killed = true
			}
			res[w].stderr = stderr.String()
			if b, err := os.ReadFile(out); err == nil {
				var o workerOut
				if json.Unmarshal(b, &o) == nil {
					res[w].out = &o
				}
			}
		}(w)
	}
	wg.Wait()

	// ---- crashed / hung workers
	for w := range res {
		r := &res[w]
		if r.killed {
			trouble("worker %d exceeded its watchdog\n%s", w, tail(r.stderr, 400))
		}
		if r.out == nil {
			p := firstPanic(r.stderr)
			cur := filepath.Join(work, fmt.Sprintf("cur-%d.json", w))
			cj, cerr := os.ReadFile(cur)
			if p == "" || cerr != nil {
				trouble("worker %d died without a result: %v\n%s", w, r.err, tail(r.stderr, 60))
			}
			// a crash of the process while executing a case: candidate violation
			dir := filepath.Join(V, "replays", id)
			os.MkdirAll(dir, 0o755)
			h := fnv.New64a()
			h.Write(cj)
			path := filepath.Join(dir, fmt.Sprintf("crash-%016x.json", h.Sum64()))
			rf, _ := json.MarshalIndent(&replayFile{Property: id, Engine: "", Case: cj,
				Expect: &violation{Property: id, Class: "crash", Msg: p}, Tree: tree, Trace: strings.Split(tail(r.stderr, 60), "\n")}, "", " ")
			os.WriteFile(path, rf, 0o644)
			same := 0
			for i := 0; i < 2; i++ {
				_, se, err := runReplay(work, id, path, 1)
				if err != nil && firstPanic(se) == p {
					same++
				}
			}
			if same == 2 {
				writeEvidence(id, tier, seed, cfg, res2outs(res), time.Since(start), 1, nil, "")
				fmt.Printf("crash while executing a case: %s\n", p)
				fmt.Printf("VIOLATION property=%s replay=%s\n", id, path)
				exit(1)
			}
			os.Remove(path)
			trouble("worker %d crashed (%s) but the crash does not replay", w, p)
		}
	}
	outs := res2outs(res)
	for _, o := range outs {
		if len(o.Harness) > 0 {
			if o.Failure != nil {
				dir := filepath.Join(V, "replays", id)
				os.MkdirAll(dir, 0o755)
				rf, _ := json.MarshalIndent(o.Failure, "", " ")
				os.WriteFile(filepath.Join(dir, "harness-trouble.json"), rf, 0o644)
			}
			trouble("worker %d reported a problem of the machinery itself (case saved as replays/%s/harness-trouble.json): %s", o.Worker, id, strings.Join(o.Harness, " | "))
		}
	}

	// ---- phase 2: determinism spot check (same seed, other process, other GOMAXPROCS)
	// A divergence is trouble (exit 2) - unless a failing case found by the
	// search reproduces its violation exactly in two fresh processes below: a
	// change to the tree may bring nondeterminism of its own (library goroutines
	// the simulator does not schedule), which must not hide a violation that
	// does replay.
	detChecked, detNote, detDiverged := 0, "", ""
	if h0 := outs[0].TraceHashes; len(h0) > 0 {
		out := filepath.Join(work, "det.json")
		cmd := exec.Command(filepath.Join(work, "sim.test"), "-test.run", "TestProp", "-test.cpu", "1", "-test.timeout", "0",
			"-verif.prop="+id, "-verif.tier="+tier, "-verif.budget=120s", "-verif.maxruns=24", "-verif.det=24",
			"-verif.worker=0", "-verif.seed="+strconv.FormatUint(seed, 10), "-verif.out="+out, "-verif.known="+V+"/known_findings.json")
		cmd.Dir = work
		cmd.Env = simEnv()
		var se bytes.Buffer
		cmd.Stderr = &se
		cmd.Stdout = &se
		if err := cmd.Run(); err != nil {
			trouble("determinism re-run failed: %v\n%s", err, tail(se.String(), 30))
		}
		var o workerOut
		b, _ := os.ReadFile(out)
		if json.Unmarshal(b, &o) != nil {
			trouble("determinism re-run wrote no result")
		}
		for k, v := range h0 {
			if v2, ok := o.TraceHashes[k]; ok {
				detChecked++
				if v != v2 && detDiverged == "" {
					detDiverged = fmt.Sprintf("DETERMINISM-DIVERGED: case %s gives result hash %x in one process and %x in another", k, v, v2)
				}
			}
		}
		detNote = fmt.Sprintf("%d cases re-executed in a second process (GOMAXPROCS=1 like every simulator process), identical result hashes", detChecked)
		if detDiverged != "" {
			detNote = detDiverged
		}
	}

	// ---- phase 3: failures
	var fails []*replayFile
	for _, o := range outs {
		if o.Failure != nil && o.Failure.Expect != nil {
			fails = append(fails, o.Failure)
		}
		for what := range o.KnownHits {
			if !knownPrinted[what] {
				fmt.Printf("KNOWN-FINDING: property=%s %s\n", id, what)
				knownPrinted[what] = true
			}
		}
	}
	sort.Slice(fails, func(i, j int) bool { return len(fails[i].Case) < len(fails[j].Case) })
	code := 0
	if regressions > 0 {
		code = 1
	}
	var reported, diverged []string
	seenClass := map[string]bool{}
	for _, f := range fails {
		if seenClass[f.Expect.Class] {
			continue
		}
		f.Tree = tree
		dir := filepath.Join(V, "replays", id)
		os.MkdirAll(dir, 0o755)
		h := fnv.New64a()
		h.Write(f.Case)
		path := filepath.Join(dir, fmt.Sprintf("%s-%016x.json", f.Expect.Class, h.Sum64()))
		rf, _ := json.MarshalIndent(f, "", " ")
		os.WriteFile(path, rf, 0o644)
		okN := 0
		for i := 0; i < 2; i++ {
			r, se, err := runReplay(work, id, path, 1)
			if err != nil {
				trouble("replay of %s failed to run: %v\n%s", path, err, tail(se, 30))
			}
			for _, v := range r.Violations {
				if v.Property == f.Expect.Property && v.Class == f.Expect.Class && v.Step == f.Expect.Step {
					okN++
					break
				}
			}
		}
		if okN != 2 {
			// another worker's failure of the same class may replay; if none does
			// this is trouble, not a violation
			diverged = append(diverged, fmt.Sprintf("%s (%d/2)", path, okN))
			continue
		}
		seenClass[f.Expect.Class] = true
		fmt.Printf("violation: %s/%s at step %d: %s\n", f.Expect.Property, f.Expect.Class, f.Expect.Step, f.Expect.Msg)
		fmt.Printf("VIOLATION property=%s replay=%s\n", id, path)
		reported = append(reported, path)
		code = 1
	}
	if detDiverged != "" {
		if len(reported) == 0 {
			trouble("%s", detDiverged)
		}
		fmt.Printf("note: %s; the violation(s) above were reproduced exactly (property, class, step) by two fresh processes each\n", detDiverged)
	}
	if len(diverged) > 0 && len(reported) == 0 {
		trouble("REPLAY-DIVERGED: %d failing case(s) do not reproduce their violation in fresh processes: %s", len(diverged), strings.Join(diverged, ", "))
	}
	var unconfirmed int64
	for _, o := range outs {
		unconfirmed += o.Unconfirmed
	}
	if unconfirmed > 0 && len(reported) == 0 {
		trouble("HISTORY-DEPENDENT: %d run(s) violated the property but not when re-executed at once from a clean process state (emptied sync.Pools); no run failed reproducibly", unconfirmed)
	}
	raceNote := ""
	if code == 0 && len(cfg.RaceEngines) > 0 {
		var rv int
		rv, raceNote = racePhase(id, tier, seed, cfg, work, tree, budget/2, workers)
		if rv > 0 {
			code = 1
			reported = append(reported, "data-race")
		}
	}
	if raceNote != "" {
		detNote += "; " + raceNote
	}
	writeEvidence(id, tier, seed, cfg, outs, time.Since(start), len(reported)+regressions, knownPrinted, detNote)
	var runs int64
	for _, o := range outs {
		runs += o.Runs
	}
	fmt.Printf("%s %s: %d simulated runs on %d workers in %.1fs, %d violation(s), %d known finding(s)\n", id, tier, runs, workers, time.Since(start).Seconds(), len(reported), len(knownPrinted))
	exit(code)
}

type wres struct {
	out    *workerOut
	stderr string
	err    error
	killed bool
}

var raceRe = regexp.MustCompile(`(?s)WARNING: DATA RACE.*?==================`)

// racePhase runs the race-detector configuration of the listed engines. A data
// race report kills the worker (halt_on_error); the case it was executing is
// then replayed twice in fresh processes and must report a race both times.
func racePhase(id, tier string, seed uint64, cfg propCfg, work, tree string, budget time.Duration, workers int) (violations int, note string) {
	bin := filepath.Join(work, "sim.race.test")
	if budget < 5*time.Second {
		budget = 5 * time.Second
	}
	per := workers / len(cfg.RaceEngines)
	if per < 1 {
		per = 1
	}
	type rr struct {
		eng    string
		w      int
		stderr string
		runs   int64
		ok     bool
	}
	var mu sync.Mutex
	var all []rr
	var wg sync.WaitGroup
	for ei, eng := range cfg.RaceEngines {
		for w := 0; w < per; w++ {
			wg.Add(1)
			go func(eng string, w int) {
				defer wg.Done()
				out := filepath.Join(work, fmt.Sprintf("race-%s-%d.json", eng, w))
				cur := filepath.Join(work, fmt.Sprintf("race-cur-%s-%d.json", eng, w))
				var se bytes.Buffer
				cmd := exec.Command(bin, "-test.run", "TestProp", "-test.cpu", "1", "-test.timeout", "0", "-verif.race", "-verif.engine="+eng,
					"-verif.prop="+id, "-verif.tier="+tier, "-verif.budget="+budget.String(), "-verif.worker="+strconv.Itoa(100+w),
					"-verif.seed="+strconv.FormatUint(seed, 10), "-verif.out="+out, "-verif.cur="+cur, "-verif.known="+V+"/known_findings.json")
				cmd.Dir = work
				cmd.Env = append(simEnv(), "GORACE=halt_on_error=1 exitcode=66")
				cmd.Stderr = &se
				cmd.Stdout = &se
				done := make(chan error, 1)
				go func() { done <- cmd.Run() }()
				select {
				case <-done:
				case <-time.After(budget + 4*time.Minute):
					cmd.Process.Kill()
					<-done
				}
				r := rr{eng: eng, w: w, stderr: se.String()}
				if b, err := os.ReadFile(out); err == nil {
					var o workerOut
					if json.Unmarshal(b, &o) == nil {
						r.runs, r.ok = o.Runs, true
					}
				}
				mu.Lock()
				all = append(all, r)
				mu.Unlock()
			}(eng, w+ei*per)
		}
	}
	wg.Wait()
	var runs int64
	for _, r := range all {
		runs += r.runs
		if r.ok {
			continue
		}
		rep := raceRe.FindString(r.stderr)
		if rep == "" {
			trouble("race-phase worker (%s) died without a result and without a race report:\n%s", r.eng, tail(r.stderr, 40))
		}
		cur := filepath.Join(work, fmt.Sprintf("race-cur-%s-%d.json", r.eng, r.w))
		cj, err := os.ReadFile(cur)
		if err != nil {
			trouble("race report without a current case: %v", err)
		}
		dir := filepath.Join(V, "replays", id)
		os.MkdirAll(dir, 0o755)
		h := fnv.New64a()
		h.Write(cj)
		path := filepath.Join(dir, fmt.Sprintf("data-race-%016x.json", h.Sum64()))
		rf, _ := json.MarshalIndent(&replayFile{Property: id, Engine: r.eng, Case: cj,
			Expect: &violation{Property: id, Class: "data-race", Msg: "the Go race detector reports a data race on this (serialised, replayable) execution"},
			Tree: tree, Trace: strings.Split(rep, "\n")}, "", " ")
		os.WriteFile(path, rf, 0o644)
		again := 0
		for i := 0; i < 2; i++ {
			var se bytes.Buffer
			cmd := exec.Command(bin, "-test.run", "TestProp", "-test.cpu", "1", "-test.timeout", "0", "-verif.race", "-verif.engine="+r.eng, "-verif.prop="+id, "-verif.replay="+path, "-verif.out="+filepath.Join(work, "race-replay.json"))
			cmd.Dir = work
			cmd.Env = append(simEnv(), "GORACE=halt_on_error=1 exitcode=66")
			cmd.Stderr = &se
			cmd.Stdout = &se
			cmd.Run()
			if raceRe.MatchString(se.String()) {
				again++
			}
		}
		if again == 2 {
			fmt.Printf("violation: %s/data-race: the race detector reports a data race (engine %s); first report:\n%s\n", id, r.eng, tail(rep, 30))
			fmt.Printf("VIOLATION property=%s replay=%s\n", id, path)
			return 1, fmt.Sprintf("race phase: %d runs, race reported", runs)
		}
		os.Remove(path)
		fmt.Printf("RACE-REPORT (not reproduced on replay %d/2, not counted): %s\n", again, tail(rep, 12))
	}
	return 0, fmt.Sprintf("race phase: %d runs of engines %v from a -race build with the scheduler's synchronisation hidden from the detector, no race reported", runs, cfg.RaceEngines)
}

func res2outs(res []wres) []*workerOut {
	var outs []*workerOut
	for i := range res {
		if res[i].out != nil {
			outs = append(outs, res[i].out)
		}
	}
	return outs
}

func tail(s string, n int) string {
	l := strings.Split(strings.TrimRight(s, "\n"), "\n")
	if len(l) > n {
		l = l[len(l)-n:]
	}
	return strings.Join(l, "\n")
}

func writeEvidence(id, tier string, seed uint64, cfg propCfg, outs []*workerOut, wall time.Duration, violations int, knownPrinted map[string]bool, detNote string) {
	var runs, completed, steps, switches, preempts, simNs int64
	faults, configured, probes, other := map[string]int64{}, map[string]int64{}, map[string]int64{}, map[string]int64{}
	scheds, states, nontri := map[uint64]struct{}{}, map[uint64]struct{}{}, map[uint64]struct{}{}
	var samples []json.RawMessage
	var seeds []uint64
	var cpuS float64
	for _, o := range outs {
		runs += o.Runs
		completed += o.Completed
		steps += o.Steps
		switches += o.Switches
		preempts += o.Preempts
		simNs += o.SimTimeNs
		cpuS += o.WallS
		for k, v := range o.Faults {
			faults[k] += v
		}
		for k, v := range o.Configured {
			configured[k] += v
		}
		for k, v := range o.Probes {
			probes[k] += v
		}
		for k, v := range o.OtherProps {
			other[k] += v
		}
		for _, h := range o.Scheds {
			scheds[h] = struct{}{}
		}
		for _, h := range o.States {
			states[h] = struct{}{}
		}
		for _, h := range o.NonTrivial {
			nontri[h] = struct{}{}
		}
		if len(samples) < 3 && len(o.Samples) > 0 {
			samples = append(samples, o.Samples[0])
		}
		seeds = append(seeds, o.SeedFirst)
	}
	if len(samples) == 0 {
		samples = append(samples, json.RawMessage(`"no non-trivial run was produced"`))
	}
	var kf []string
	for k := range knownPrinted {
		kf = append(kf, k)
	}
	sort.Strings(kf)
	perHour := 0.0
	if wall > 0 {
		perHour = float64(runs) / wall.Hours()
	}
	ev := map[string]any{
		"property_id": id,
		"tier":        tier,
		"seed":        seed,
		"level":       cfg.Level,
		"wall_s":      wall.Seconds(),
		"violations":  violations,
		"assumptions": cfg.Assumptions,
		"coverage": map[string]any{
			"evaluations":              runs,
			"distinct_nontrivial":      len(nontri),
			"rule":                     cfg.Rule,
			"samples":                  samples,
			"simulated_runs":           runs,
			"runs_completed_scenario":  completed,
			"runs_per_hour":            perHour,
			"worker_processes":         len(outs),
			"worker_base_seeds":        seeds,
			"sim_time_covered_s":       float64(simNs) / 1e9,
			"scheduling_steps":         steps,
			"context_switches":         switches,
			"preemptions":              preempts,
			"distinct_schedules":       len(scheds),
			"distinct_abstract_states": len(states),
			"faults_fired":             faults,
			"faults_configured":        configured,
			"probes":                   probes,
			"other_property_signals":   other,
			"known_findings_confirmed": kf,
			"determinism_spot_check":   detNote,
			"components_real":          cfg.Components,
			"components_stubbed":       cfg.Stubs,
			"worker_cpu_s":             cpuS,
		},
	}
	os.MkdirAll(V+"/evidence", 0o755)
	b, _ := json.MarshalIndent(ev, "", " ")
	if err := os.WriteFile(filepath.Join(V, "evidence", id+".json"), b, 0o644); err != nil {
		trouble("cannot write evidence: %v", err)
	}
}
