package main

// Per-property configuration of the orchestrator: budgets and the static parts
// of the evidence file (what ran real code, what was a stub).
var props = map[string]propCfg{
	"C07": {
		Level: "exploration", QuickS: 40, ThoroughS: 600,
		Components: []string{"mocrelay.RouterHandler incl. subscribers/safeMap/matchers (instrumented: a yield before every statement, simulated RWMutex)", "google/uuid (seeded)", "Go runtime channels and select (poll order from the schedule)"},
		Stubs:      []string{"clients (scripted sender/reader actors)", "goroutine scheduler (cooperative, seeded)", "clock (testing/synctest; not advanced in this check)"},
		Rule:       "rapid draws 2-5 scripted connections (REQ/re-REQ/CLOSE/EVENT/COUNT/await/pause/resume/cancel/close-inbound), router buffer 1-8 and a schedule (explicit preemption points, random preemption density, forced choices, select poll order). A run is non-trivial when it has at least one publication, one subscription and more context switches than 3x the number of connections; distinct = distinct hash of (case JSON, schedule hash).",
		Assumptions: []string{"preemption happens at statement boundaries of the instrumented packages only", "blocked channel senders are served FIFO by the Go runtime", "real-time order is judged by the simulator's global event sequence numbers"},
	},
}
