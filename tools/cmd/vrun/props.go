package main

// Per-property configuration of the orchestrator: budgets and the static parts
// of the evidence file (what ran real code, what was a stub).
var props = map[string]propCfg{
	"C07": {
		Level: "exploration", QuickS: 40, ThoroughS: 600,
		Components: []string{"mocrelay.RouterHandler incl. subscribers/safeMap/matchers (instrumented: a yield before every statement, simulated RWMutex)", "google/uuid (seeded)", "Go runtime channels and select (poll order from the schedule)"},
		Stubs:      []string{"clients (scripted sender/reader actors)", "goroutine scheduler (cooperative, seeded)", "clock (testing/synctest; not advanced in this check)"},
		Rule:       "rapid draws 2-5 scripted connections (REQ/re-REQ/CLOSE/EVENT/COUNT/await/pause/resume/cancel/close-inbound), router buffer 1-8 and a schedule (explicit preemption points, random preemption density, forced choices, select poll order). A run is non-trivial when it has at least one publication, one subscription and more context switches than 3x the number of connections; distinct = distinct hash of (case JSON, schedule hash).",
		Assumptions: []string{"preemption happens at statement boundaries of the instrumented packages only", "blocked channel senders are served FIFO by the Go runtime", "real-time order is judged by the simulator's global event sequence numbers"},
	},
}

func init() {
	cacheReal := []string{"mocrelay.EventCache (Add/Find/Len, indexes, deletion registry)", "mocrelay.CacheHandler + SimpleHandler sessions (EVENT/REQ path, Dump/Restore)", "igrmk/treemap"}
	cacheStub := []string{"clients (one scripted session actor)", "goroutine scheduler (cooperative; sequential history in this engine)"}
	cacheRule := "rapid draws a capacity (1-16), a pool of 2-16 events over 3 authors x kinds {1,5,0,3,10002,30000,30001,20001,7} x created_at 1-6 (ties frequent) x d in {absent, empty, a, b:c} with e/a references to earlier and later events (3-element tags, dangling references), and an insertion history of up to 24 (quick) / 60 (thorough) operations, some through a CacheHandler session, with dump+restore into a fresh cache as a restart fault; after every insertion 1-3 filter lists (selective, non-selective, empty lists, limit 0/1/2/3, since/until) are evaluated. A run is non-trivial when at least two insertions were accepted and an eviction, replacement or deletion happened; distinct = distinct case hash."
	props["C03"] = propCfg{Level: "exploration", QuickS: 30, ThoroughS: 480, Components: cacheReal, Stubs: cacheStub, Rule: cacheRule,
		Assumptions: []string{"the retained set is what the match-everything query lists at that moment (as the property defines it)", "ties at a filter's cut-off timestamp may be resolved either way"}}
	props["C04"] = propCfg{Level: "exploration", QuickS: 30, ThoroughS: 480, Components: cacheReal, Stubs: cacheStub, Rule: cacheRule,
		Assumptions: []string{"equal-timestamp versions of one address: either verdict is accepted", "the reported flag for ephemeral events and for addressable events without d tag is not constrained"}}
	props["C05"] = propCfg{Level: "exploration", QuickS: 30, ThoroughS: 480, Components: cacheReal, Stubs: cacheStub, Rule: cacheRule,
		Assumptions: []string{"address references to replaceable events (kind:pubkey:) and to versions newer than the deletion request are left open (may)"}}
}

func init() {
	props["C15"] = propCfg{Level: "exploration", QuickS: 40, ThoroughS: 600, RaceEngines: []string{"concurrent-cache", "router"},
		Components: []string{"mocrelay.EventCache (instrumented: a yield before every statement, simulated RWMutex)", "mocrelay.CacheHandler + SimpleHandler sessions (session mode)", "igrmk/treemap"},
		Stubs:      []string{"clients (2-4 actors calling Add/Find/Len directly, or scripted sessions)", "goroutine scheduler (cooperative, seeded)"},
		Rule:       "rapid draws capacity 1-4, 2-8 related events with unique created_at (so the sequential specification is a function), 2-4 clients with up to 16 (quick) / 24 (thorough) operations in total (Add, Find with listings and selective filters, Len), direct or through CacheHandler sessions, and a schedule with preemption inside Add/Find. Each history is checked for linearizability: first against the witness order of simulated-lock acquisitions, and when that does not explain the results, by porcupine over invoke/return stamps. Non-trivial: >= 2 insertions, >= 1 query, more context switches than 2x clients; distinct = distinct (case, schedule) hash.",
		Assumptions: []string{"preemption at statement boundaries of the instrumented packages", "data races are decided by Go's race detector on the serialised schedules of the race phase (direct-call cache clients and router sessions); the harness actors are excluded from instrumentation (go:norace)", "porcupine Unknown (timeout) is counted, never reported"}}
}

func init() {
	real := []string{"mocrelay.MergeHandler session: handleRecv/handleSend/mergeSend goroutines, the three 1-slot state channels, reply aggregation (instrumented: a yield before every statement)", "event matchers used for limit/filter gating"}
	stub := []string{"2-4 child handlers (scripted: every emission is a scheduler decision; sequential and asynchronous styles)", "client (scripted actor with pause/resume and await-EOSE)", "goroutine scheduler (cooperative, seeded)"}
	rule := "rapid draws 2-4 scripted children (per REQ: 0-4 stored events sorted or not, duplicated across children, matching or not, then EOSE / CLOSED / nothing, then 0-3 live events, notices, events for unknown subscriptions; per EVENT a verdict and reason with machine-readable prefix; per COUNT a value), a client script of up to 7 (quick) / 12 (thorough) operations (REQ with re-use of an id only after its EOSE, CLOSE racing the EOSE, EVENTs and COUNTs in flight together, repeated ids in 10% of runs, reader pauses) and a schedule. Non-trivial: the client received at least two messages and there were more context switches than 3x children; distinct = distinct (case, schedule) hash."
	props["C08"] = propCfg{Level: "exploration", QuickS: 40, ThoroughS: 600, Components: real, Stubs: stub, Rule: rule,
		Assumptions: []string{"children send at most one EOSE per REQ (as the property's quantifier lists)", "stream constraints are demanded while the subscription is open (up to its EOSE and not beyond the client's CLOSE)", "after a re-issue of an id, forwarding of a straggler of the previous incarnation is demanded only when per-child FIFO proves it was processed before the re-issue"}}
	props["C09"] = propCfg{Level: "exploration", QuickS: 40, ThoroughS: 600, Components: real, Stubs: stub, Rule: rule,
		Assumptions: []string{"'first rejecting child' is read as lowest index or earliest reply, either accepted", "children answer each EVENT with one OK and each COUNT with one COUNT"}}
}

func init() {
	stub := []string{"clients (1-4 scripted actors: pause/resume, clock advance, sync points, cancel / close-inbound)", "downstream handler (records what it receives, emits its own scripted stream of all 7 server message types)", "goroutine scheduler (cooperative, seeded)", "wall clock (testing/synctest, moved only by explicit advance operations)"}
	common := "rapid draws an event pool (sizes at limit-1/limit/limit+1), a middleware stack, 1-4 client scripts over all five message types (created_at placed at each window boundary +-2s and far inside/outside, relative to the simulated clock), clock jumps, reader pauses, per-session downstream emissions and a schedule. "
	props["C17"] = propCfg{Level: "exploration", QuickS: 40, ThoroughS: 600,
		Components: []string{"every limit middleware through the real NewSimpleMiddleware plumbing (both goroutines, instrumented)", "BuildMiddlewareFromNIP11", "event matchers (allow/deny filters)"}, Stubs: stub,
		Rule: common + "C17: stacks of 1-5 limit middlewares in random order, or the chain built from a NIP-11 document with any subset of the 7 enforced fields (or nil document / no limitation block). Non-trivial: at least two messages judged and a rejection or several clients; distinct = distinct (case, schedule) hash.",
		Assumptions: []string{"+-1s safety margin around the moving created_at boundary (verdict either way inside it)", "a filter without limit is taken to respect max_limit", "rejections produced by different middlewares of a stack may overtake each other"}}
	props["C18"] = propCfg{Level: "exploration", QuickS: 40, ThoroughS: 600,
		Components: []string{"MaxSubscriptions, RecvEventUniqueFilter, SendEventUniqueFilter middlewares (instrumented), hashicorp/golang-lru", "NewSimpleMiddleware plumbing"}, Stubs: stub,
		Rule: common + "C18: one stateful middleware (quota N or window size 1-3), optionally between deterministic limit middlewares, 1-3 concurrent connections through one middleware value, id alphabets of size N+2. Each connection is judged against its own reference model (LRU window as a relation: must reject inside the window, must pass never-seen ids, may otherwise).",
		Assumptions: []string{"the window is the last `size` distinct ids by last-seen time", "only a client CLOSE frees a quota slot (as the statement says)"}}
	props["C19"] = propCfg{Level: "exploration", QuickS: 40, ThoroughS: 600,
		Components: []string{"middleware/prometheus (instrumented)", "prometheus/client_golang registry and Gather (real)", "NewSimpleMiddleware plumbing"}, Stubs: stub,
		Rule: common + "C19: the metrics middleware alone or between deterministic limit middlewares, 1-4 concurrent sessions, sessions ending by cancel / close-inbound with subscriptions open; Gather() is compared with the harness truth at every sync point, at the end of the scripts and after all sessions ended. The subscription gauge is judged against all linearizations of REQ/CLOSE (client side) and CLOSED (server side) consistent with the stamped intervals.",
		Assumptions: []string{"counters and the subscription gauge are compared only at quiescent points where no reader is stalled and no session is being torn down; the connection gauge always"}}
}

func init() {
	props["C06"] = propCfg{Level: "exploration", QuickS: 45, ThoroughS: 600,
		Components: []string{"handler/sqlite: Migrate, insertEvents, queryEvent/buildEventQuery, NewSQLiteHandler with its bulk inserter (instrumented)", "database/sql, mattn/go-sqlite3 + SQLite (real; in-memory shared-cache and file databases, journal DELETE/WAL)", "doug-martin/goqu"},
		Stubs:      []string{"clients (1-3 scripted sessions in handler mode)", "goroutine scheduler (cooperative, seeded; decides how concurrent sessions' events are split into batches)", "wall clock (bulk-insert ticker driven by explicit clock advances)"},
		Rule:       "rapid draws a pool of 2-10 events (all classes, deletion requests before/after their targets, 3-element tags, arbitrary Unicode content and tag values, tag names differing only in case), a history of 1-5 (quick) / 1-10 (thorough) batches (any split, duplicates, the same event in several batches) inserted directly or through 1-3 concurrent handler sessions with bulk size 1-3, database flavour (memory/file, DELETE/WAL, 1-3 connections, xxhash seed) and after every batch 1-4 filter lists (limit 0/1, empty lists, several #x, overlapping filters), half of them through REQ on a session. The match-everything answer is judged against the specification set built from the statement, every other answer against it with the tie-tolerant answer checker, all seven fields compared. Non-trivial: at least two distinct events inserted; distinct = distinct case hash.",
		Assumptions: []string{"equal-timestamp versions of one address: either may be kept", "address references to replaceable events and to versions newer than the deletion request are left open", "addressable events without d tag are not constrained", "64-bit key collisions under the drawn xxhash seed are not excluded (probability ~1e-8 per run) and would surface as a violation to be inspected"}}
}

func init() {
	props["C14"] = propCfg{Level: "fault_enumeration", QuickS: 45, ThoroughS: 600,
		Components: []string{"handler/sqlite: insertEvents (transaction, 5 prepared statements, commit/rollback), queryEvent, Migrate, setOrLoadXXHashSeed, NewSQLiteHandler with bulkInsertWithRetry and its real back-off", "database/sql, mattn/go-sqlite3 + SQLite on files (journal DELETE and WAL), SQLite's own crash recovery and SQLITE_FULL"},
		Stubs:      []string{"the database/sql driver is wrapped by a fault-injecting driver (fails, cancels or snapshots at the k-th BeginTx/Prepare/Stmt.Exec/Commit)", "wall clock (retry back-off 1s/2s runs on the simulated clock)", "one scripted client for the handler path"},
		Rule:       "rapid draws an event pool, 0-3 pre-history batches and a batch of 1-3 (quick) / 1-5 (thorough) events. The batch is first run fault-free under the counting driver to learn its N driver calls; then EVERY k in 1..N is executed three ways on a fresh copy of the pre-history database: injected I/O error at call k (answers must equal those before the batch; then retry must give the answers of a single success), context cancellation before call k, and process death before call k (database files copied, copy reopened, SQLite recovery) - plus real SQLITE_FULL at 3 page limits, success-then-repeat, fail/fail/succeed through the handler's retry loop, close/reopen and dirty reopen after every pre-history batch, and comparison with a twin database that was never closed. evaluations = sampled (pre-history, batch) cases; each enumerates all its fault points. Non-trivial: N >= 8; distinct = distinct case hash.",
		Assumptions: []string{"crash points are driver-call boundaries, not arbitrary bytes inside one SQLite commit (no VFS shim available)", "limited probes are judged with the tie-tolerant answer checker instead of equality across databases"}}
}

func init() {
	props["C16"] = propCfg{Level: "exploration", QuickS: 40, ThoroughS: 600,
		Components: []string{"mocrelay.SimpleHandler request/reply loop, CacheHandler (EVENT/REQ/COUNT replies, Dump/Restore), EventCache", "handler/sqlite: NewSQLiteHandler sessions with the bulk inserter on a real file database (go-sqlite3, WAL)"},
		Stubs:      []string{"clients (1-2 scripted sessions: pipelined requests, await, pause/resume)", "goroutine scheduler (cooperative, seeded)", "wall clock"},
		Rule:       "rapid draws a backend (cache 3:1 sqlite), capacity, related events with unique created_at, a prefilled store, 1-2 sessions with up to 8 (quick) / 14 (thorough) operations over all five message types sent pipelined without waiting, with stalled readers (back-pressure) and a schedule. Replies are parsed per session in request order: EVENT -> exactly one OK with its id (cache, single session: verdict and duplicate: prefix against the sequential store model; sqlite: accepting), REQ -> matching events labelled with its id then exactly one EOSE (cache, single session: exactly the model's answer), COUNT -> one COUNT, CLOSE/AUTH -> nothing, nothing interleaved, nothing extra. Finally the cache is dumped and restored into an empty cache of the same capacity and 4 filter lists are compared. Non-trivial: at least two EVENT/REQ requests; distinct = distinct (case, schedule) hash.",
		Assumptions: []string{"for the SQLite handler only grammar, labels, order and filter conformance are judged (its OK precedes the asynchronous bulk insertion, so completeness of a REQ answer at that instant is not defined)", "with two cache sessions verdict and answer content are not compared with the sequential model (C15 owns concurrent content)"}}
}

func init() {
	props["C13"] = propCfg{Level: "fault_enumeration", QuickS: 45, ThoroughS: 600,
		Components: []string{"all handlers (default, cache, router, SQLite on a real in-memory database, nested merges) and all provided middlewares incl. both unique filters, quota, limits, logging and the prometheus middleware (instrumented)", "database/sql + go-sqlite3", "prometheus registry"},
		Stubs:      []string{"one scripted client (pipelined history, then the cut)", "goroutine scheduler (cooperative, seeded; select poll order varied = one more message processed after cancellation)", "wall clock"},
		Rule:       "rapid draws a handler tree (leaves default/cache/router/sqlite, merges of 2-3 subtrees up to depth 2, every node wrapped in 0-4 random middlewares), a history of 0-8 (quick) / 0-12 (thorough) valid client messages and a schedule. For each sampled (tree, history) EVERY cut point 0..len(history) is executed three ways: context cancelled with a draining peer, context cancelled with a peer that never reads, inbound channel closed with a draining peer. After each: ServeNostr returned within 1s of simulated time, goroutine census equals the census before the session, every router registry is empty, prometheus connection and subscription gauges are 0; then the handler context is cancelled and the bubble must end without blocked goroutines. evaluations = sampled (tree, history) pairs. Non-trivial: history of at least two messages; distinct = distinct (case, schedule) hash. The WebSocket clause (send timeout) is checked by the ws-session engine runs that are part of this check.",
		Assumptions: []string{"cut points are the positions between messages of the pipelined history; where within the in-flight processing the cut lands is decided by the schedule", "a goroutine is identified by its stack with addresses and arguments removed"}}
}

func init() {
	props["C12"] = propCfg{Level: "exploration", QuickS: 45, ThoroughS: 600,
		Components: []string{"mocrelay.ServeMux -> Relay.ServeHTTP, serveReadLoop/serveRead gate chain, serveWriteLoop, rate limiter (x/time/rate), ping ticker, write deadline (instrumented)", "ParseClientMsg, ValidClientMsg, Event.Verify (btcec schnorr)", "coder/websocket on BOTH ends (real handshake, framing, masking, control frames)"},
		Stubs:      []string{"the TCP connection (two in-memory pipes joined by pump goroutines: chunk size 1 B - 64 KiB, every chunk a scheduler decision, stall, reset)", "net/http server (a RoundTripper calls ServeHTTP with a hijackable ResponseWriter)", "the handler behind the relay (records what it receives, emits a scripted stream of all 7 server message types)", "wall clock (rate limiter, ping and deadlines run on the simulated clock, with jumps)"},
		Rule:       "rapid draws relay options (send timeout 1s/10s, ping 0/5s/1min, rate 10-1000/s, burst 1/10), a connection chunk size, 1-8 (quick) / 1-16 (thorough) frames - valid messages of the 5 client types (events freshly signed with 4 fixed keys, content and tag values from the NIP-01-sensitive set: < > & U+2028/9, controls, astral characters, quotes, backslashes; #a addresses with colons in d) mixed with 27 labelled corruptions (binary frame, invalid UTF-8, non-JSON, unknown label, arity, types, upper-case/short hex, kind out of range, negative since/limit, unknown filter key, altered content/id/pubkey/sig, forged signature, ...), 0-8 handler emissions, clock jumps and a schedule. Oracle: handler-received sequence == deliverable frames in order, each once, field-equal; client-received frames == emissions in order (JSON-equal) plus exactly one rejection per non-deliverable frame; orderly close ends the session. Non-trivial: at least two frames; distinct = distinct (case, schedule) hash.",
		Assumptions: []string{"the wire encoder and the canonical serializer/signer of the harness (ref.Canonical, btcec Sign) are the reference for 'well-formed' and 'authentic'", "loss, duplication and reordering of bytes are not injected (TCP does not exhibit them)"}}
}
