#!/bin/bash
# confirm_seeded.sh <worktree> <X> <seeded-id>: confirm a sub-agent's mutant myself (suite passes with patch, demo fails
# with patch and passes without), then store it under /verif/seeded/<seeded-id>/
WT=$1; X=$2; ID=$3
export PATH=/root/go/pkg/mod/golang.org/toolchain@v0.0.1-go1.24.1.linux-amd64/bin:$PATH GOTOOLCHAIN=local GOFLAGS=-mod=mod GOPROXY=off GOSUMDB=off
cd $WT || exit 3
git checkout -q -- . 2>/dev/null
cmd=$(python3 -c "import json;print(json.load(open('out/$X/meta.json'))['demo_cmd'])")
run_demo() { ( cd $WT && eval "$cmd" ) > /tmp/confirm-$$.log 2>&1; grep -qE "^(ok|PASS)" /tmp/confirm-$$.log && ! grep -qE "^(FAIL|--- FAIL|panic:)" /tmp/confirm-$$.log; }
git apply out/$X/patch.diff || { echo "$ID: patch does not apply"; exit 3; }
pk=$(go list ./... | grep -v /out/)
if go build ./... >/dev/null 2>&1 && go test -vet=off -count=1 $pk >/tmp/confirm-suite-$$.log 2>&1; then suite=true; else suite=false; fi
if run_demo; then with=pass; else with=fail; fi
git checkout -q -- .
if run_demo; then without=pass; else without=fail; fi
echo "$ID: suite_passes_with_patch=$suite demo_with_patch=$with demo_without_patch=$without"
if [ $suite = true ] && [ $with = fail ] && [ $without = pass ]; then
  d=/verif/seeded/$ID; mkdir -p $d; cp out/$X/patch.diff $d/; cp out/$X/demo_test.go $d/ 2>/dev/null || cp out/$X/*.go $d/
  python3 - "$d" "out/$X/meta.json" <<'PY'
import json,sys
d,m=sys.argv[1:3]
meta=json.load(open(m))
meta['confirmed_by_me']={'suite_passes_with_patch':True,'demo_fails_with_patch':True,'demo_passes_without_patch':True,'how':'tools/confirm_seeded.sh: git apply patch in the scratch worktree, go test of the repository packages, demo_cmd; then git checkout and demo_cmd again'}
json.dump(meta,open(d+'/meta.json','w'),indent=1)
PY
fi
rm -f /tmp/confirm-$$.log /tmp/confirm-suite-$$.log
