#!/bin/bash
# dettest.sh [N processes] [K cases]: determinism self-test. For every checked property the same base seed is
# executed in N OS processes (K cases each) and the per-case result hashes are compared across all of them.
set -u
V="$(cd "$(dirname "${BASH_SOURCE[0]}")/.." && pwd)"; export VERIF_HOME="$V"
N=${1:-32}; K=${2:-60}
W=/tmp/verif-work/dettest-$$; "$V/tools/build.sh" "$W" || exit 2
cd "$W"
for p in ${VERIF_DET_PROPS:-C03 C06 C07 C08 C12 C13 C14 C15 C16 C17 C18 C19}; do
  for i in $(seq 1 $N); do
    ( VERIF_DET_DIGEST=1 GODEBUG=randautoseed=0,asyncpreemptoff=1 ./sim.test -test.run TestProp -test.cpu 1 -test.timeout 0 -verif.prop=$p -verif.budget=600s -verif.maxruns=$K -verif.det=$K -verif.worker=0 -verif.seed=${VERIF_SEED:-1} -verif.out=det-$p-$i.json >/dev/null 2>&1 ) &
    if (( i % 16 == 0 )); then wait; fi
  done; wait
  python3 - "$p" "$N" <<'PY'
import json,sys,glob
p,n=sys.argv[1],int(sys.argv[2])
outs=[json.load(open(f)) for f in sorted(glob.glob(f'det-{p}-*.json'))]
hs=[o.get('trace_hashes') or {} for o in outs]
keys=set(hs[0]) if hs else set()
for h in hs: keys&=set(h)
bad=[k for k in keys if len({h[k] for h in hs})>1]
print(f"{p}: {len(hs)} processes, {len(keys)} common cases, {len(bad)} diverging")
for k in bad:
    ds={}
    for o in outs:
        d=(o.get('trace_digests') or {}).get(k,'?')
        ds[d]=ds.get(d,0)+1
    for d,n in ds.items(): print(f"   case {k}: {n} x {d[:600]}")
PY
done
rm -rf "$W"
