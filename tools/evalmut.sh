#!/bin/bash
# evalmut.sh <dir containing patch.diff> <PROP>... : apply the patch to a scratch copy of /repo, confirm it
# compiles and the repository's tests pass, then run the quick check(s) against it.
# env: BUDGET (seconds per check, default tier budget)
d=$1; shift
S=/tmp/verif-mut/eval-$$; rm -rf $S; mkdir -p $S; rsync -a --exclude .git /repo/ $S/
( cd $S && git init -q . >/dev/null 2>&1; patch -p1 --quiet < "$d/patch.diff" ) || { echo "PATCH-DOES-NOT-APPLY"; rm -rf $S; exit 3; }
TC=/root/go/pkg/mod/golang.org/toolchain@v0.0.1-go1.24.1.linux-amd64/bin
( cd $S && export PATH=$TC:$PATH GOTOOLCHAIN=local GOFLAGS=-mod=mod GOPROXY=off GOSUMDB=off; go build ./... && go test -vet=off -count=1 ./... ) >/tmp/evalmut-suite-$$.log 2>&1 && echo "suite: PASS" || { echo "suite: FAIL"; tail -5 /tmp/evalmut-suite-$$.log; }
for p in "$@"; do
  if [ -n "${BUDGET:-}" ]; then export VERIF_BUDGET_S=$BUDGET; fi
  out=$(cd /verif && VERIF_REPO=$S ./check $p quick 2>&1); rc=$?
  echo "check $p: exit=$rc :: $(echo "$out" | grep -E 'VIOLATION|TROUBLE|violation:' | head -3 | cut -c1-300 | tr '\n' '|')"
done
rm -rf $S /tmp/evalmut-suite-$$.log
