package mocrelay

import (
	"context"
	"net/http"
)

// The checks observe RouterHandler and
// CacheHandler through reflection (sim/simrt/reflectx.go), so no white-box
// accessor for them is injected; the only forwarding accessor is the one below.


// VerifCtxWithRequest: the context a Relay hands to its handler carries the
// upgrade request (GetRequest); sessions driven directly by the checks get one
// the same way.
func VerifCtxWithRequest(ctx context.Context, r *http.Request) context.Context {
	return ctxWithRequest(ctx, r)
}
