package mocrelay

// White-box accessors for the simulator. This file is NOT part of the
// repository: the check copies it into its scratch copy of the tree.

// VerifRegistry returns the number of connections and of subscriptions the
// router currently holds.
func (router *RouterHandler) VerifRegistry() (conns, subs int) {
	router.subs.subs.mu.RLock()
	defer router.subs.subs.mu.RUnlock()
	for _, m := range router.subs.subs.m {
		conns++
		m.mu.RLock()
		subs += len(m.m)
		m.mu.RUnlock()
	}
	return
}

// VerifCache returns the EventCache behind a CacheHandler.
func (h CacheHandler) VerifCache() *EventCache { return h.h.c }
