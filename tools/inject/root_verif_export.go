package mocrelay

// Intentionally (almost) empty: the checks observe RouterHandler and
// CacheHandler through reflection (sim/simrt/reflectx.go), so no white-box
// accessor for package mocrelay is injected any more. The file is kept so that
// tools/build.sh stays unchanged.
