package sqlite

import (
	"context"
	"database/sql"

	"github.com/high-moctane/mocrelay"
)

// White-box accessors for the simulator. This file is NOT part of the
// repository: the check copies it into its scratch copy of the tree.

func VerifInsertEvents(ctx context.Context, db *sql.DB, seed uint32, events []*mocrelay.Event) error {
	return insertEvents(ctx, db, seed, events)
}

func VerifQueryEvent(ctx context.Context, db *sql.DB, seed uint32, fs []*mocrelay.ReqFilter, maxLimit uint) ([]*mocrelay.Event, error) {
	return queryEvent(ctx, db, seed, fs, maxLimit)
}

func VerifSetOrLoadSeed(ctx context.Context, db *sql.DB) (uint32, error) {
	return setOrLoadXXHashSeed(ctx, db)
}
