#!/usr/bin/env python3
# Regenerates /verif/MANIFEST.json from the table below (kept in one place so the
# manifest stays valid while checks are added).
import json
NA = {
 "C01": "Event.Serialize/Verify are pure functions of one event: no schedule, clock, I/O or fault can change their result, so deterministic simulation has nothing to control (DESIGN.md section 3, C01).",
 "C02": "Filter matching is a pure predicate over (event, filter) and the limit counter is sequential state of a single caller; no schedule, clock or fault is involved (DESIGN.md section 3, C02).",
 "C10": "The wire codec is a set of pure functions of a byte string / value; panic-freedom and round-trip are input-universal with no schedule, clock or fault (DESIGN.md section 3, C10).",
 "C11": "ParseClientMsg/Valid* are pure functions of the input text; the position of the gate in the WebSocket read loop is simulated under C12 (DESIGN.md section 3, C11).",
 "C20": "Header-based HTTP routing and the JSON round-trip of the NIP-11 document are pure functions of request and configuration, served synchronously (DESIGN.md section 3, C20).",
}
CHECKS = {
 "C07": dict(engine="router", category="exploration",
   text="Seeded search over statement-level interleavings of 2-5 concurrent router sessions (real RouterHandler, instrumented), with stalled readers and disconnects as faults; every recorded history is judged by a real-time must/may/must-not delivery oracle plus reply completeness, ordering, duplicate and non-delay checks. Sampling, not proof.",
   note="Trusted: the cooperative scheduler and instrumenter (verifsim), testing/synctest quiescence detection, the reference filter predicate; preemption only at statement boundaries of the instrumented packages.",
   technique="deterministic simulation: seeded cooperative scheduler + real-time history oracle", design="3/C07"),
}
CACHE_NOTE = "Trusted: reference filter predicate, address function and retention relation in /verif/sim/ref and cache_model.go (written from NIP-01/NIP-09 and the statements); the retained set is read through the store's own match-everything query, as the property defines it."
CHECKS["C03"] = dict(engine="cache", category="exploration",
   text="Seeded insertion histories (all event classes, deletion requests, capacity pressure, dump+restore as restart fault) against the real EventCache/CacheHandler; after every insertion 1-3 random filter lists are answered by the store and judged by a specification checker that accepts exactly the per-filter newest-`limit` selections (ties either way). Sampling, not proof.",
   note=CACHE_NOTE, technique="deterministic simulation: seeded operation+fault sequences against a reference answer checker", design="3/C03")
CHECKS["C04"] = dict(engine="cache", category="exploration",
   text="Same runs as C03; every insertion is checked as a step of a refinement: the observed (listing before, offered event, reported flag, listing after) must be a transition the retention specification allows (capacity, one version per address, newest wins, justified removals only, ephemeral never served). Sampling, not proof.",
   note=CACHE_NOTE, technique="deterministic simulation: step-by-step refinement against an executable retention relation", design="3/C04")
CHECKS["C05"] = dict(engine="cache", category="exploration",
   text="Same runs, generator biased to deletion traffic (requests before/after targets, deleting deletions, other authors' ids and addresses, 3-element tags, evicted requests); every removal and refusal is attributed to a cause and must involve only the author's own events or capacity eviction. Sampling, not proof.",
   note=CACHE_NOTE, technique="deterministic simulation: refinement with cause attribution per author", design="3/C05")
CHECKS["C15"] = dict(engine="concurrent-cache", category="exploration",
   text="Seeded search over statement-level interleavings of 2-4 clients on one EventCache (direct calls or CacheHandler sessions): every history is checked for linearizability against a sequential functional specification (lock-acquisition order as witness, porcupine when the witness does not explain the results) and every query result for the capacity / one-version / deletion invariants. Data races are observed only through their effect at statement granularity. Sampling, not proof.",
   note="Trusted: cooperative scheduler + instrumenter, porcupine v1.3.0, the functional cache specification (c15_concurrent.go) which is defined for unique created_at and strict references only.",
   technique="deterministic simulation: seeded schedules + linearizability check (porcupine) of recorded histories", design="3/C15")
MERGE_NOTE = "Trusted: cooperative scheduler + instrumenter; scripted children stand in for real child handlers; attribution of forwarded messages to child emissions is by pointer identity."
CHECKS["C08"] = dict(engine="merge", category="exploration",
   text="Seeded search over interleavings of 2-4 scripted children's outputs with each other and with client input on the real MergeHandler session: per REQ incarnation the stream before the EOSE (matching, distinct, ordered, limited), the EOSE itself (never early, never twice, present once all children sent theirs, absent after a CLOSE the children saw first) and the pass-through after it are judged from stamped histories. Sampling, not proof.",
   note=MERGE_NOTE, technique="deterministic simulation: seeded message interleavings + per-incarnation stream oracle", design="3/C08")
CHECKS["C09"] = dict(engine="merge", category="exploration",
   text="Same runs as C08: at the final quiescent point the OK and COUNT replies are counted per request and compared with the children's verdicts, reasons and counts (conjunction, first rejecting reason as prefix, maximum), and no aggregate may precede the last child's reply. Sampling, not proof.",
   note=MERGE_NOTE, technique="deterministic simulation: seeded reply interleavings + aggregation oracle at quiescence", design="3/C09")
MW_NOTE = "Trusted: cooperative scheduler + instrumenter, testing/synctest fake clock, the per-middleware reference models in mw_engine.go (written from the statements); the downstream handler and the clients are harness stand-ins."
CHECKS["C17"] = dict(engine="mw-limits", category="exploration",
   text="Seeded search over middleware stacks (any order of the limit middlewares, or the chain built from a NIP-11 document incl. nil document / no limitation block), message sizes around every limit, created_at around each window under a simulated clock with jumps, stalled readers and schedules: each client message must be forwarded pointer-identical and in order or answered by exactly one rejection of its type and not forwarded, as the per-middleware specification decides; all server messages pass identical and in order. Sampling, not proof.",
   note=MW_NOTE, technique="deterministic simulation: seeded messages, clock jumps and schedules + per-message spec predicate; Go race detector on the serialised schedules (race phase)", design="3/C17")
CHECKS["C18"] = dict(engine="mw-stateful", category="exploration",
   text="Same harness with one stateful middleware (subscription quota, receive-side or send-side unique filter) shared by 1-3 concurrent connections: every connection is judged against its own reference model (quota exactly; LRU window as a relation), plus the invariant that downstream never sees more than N ids open. Sampling, not proof.",
   note=MW_NOTE, technique="deterministic simulation: seeded histories and interleavings + per-connection reference model; Go race detector on the serialised schedules (race phase)", design="3/C18")
CHECKS["C19"] = dict(engine="mw-metrics", category="exploration",
   text="Same harness with the Prometheus middleware and 1-4 concurrent sessions: transparency as in C17, and at every sync point, at the end and after all sessions ended Gather() is compared with the harness truth (connection gauge = live sessions; per-type and per-kind counters exact; subscription gauge within the set of values reachable by linearizations of REQ/CLOSE/CLOSED consistent with their stamped intervals). Sampling, not proof.",
   note=MW_NOTE, technique="deterministic simulation: seeded histories and interleavings + gauge/counter oracle at quiescent points; Go race detector on the serialised schedules (race phase)", design="3/C19")
CHECKS["C06"] = dict(engine="sqlite-store", category="exploration",
   text="Seeded batch histories against the real SQLite store (go-sqlite3, in-memory and file databases, DELETE/WAL), inserted directly or through concurrent handler sessions whose interleaving decides the batch split; after every batch the match-everything answer is judged against the specification set built from the statement (newest per address, deletion regardless of arrival order, ephemeral never stored, all seven fields) and 1-4 random filter lists against it with the tie-tolerant answer checker. Fault-free configuration (C14 owns faults). Sampling, not proof.",
   note="Trusted: the reference predicate/answer checker and store specification (sqlite_engine.go); SQLite and database/sql are real code, not models.",
   technique="deterministic simulation: seeded batch histories (schedule-decided batch split) + specification set and answer checker", design="3/C06")
CHECKS["C14"] = dict(engine="sqlite-faults", category="fault_enumeration",
   text="For each sampled (pre-history, batch) the batch's N driver calls are learned under a counting driver and EVERY k in 1..N is executed as injected I/O error, as context cancellation and as process death (database files copied at that call boundary, copy reopened, SQLite's recovery runs) - each time the probe answers must equal those before the batch, and a retry must lead to the answers of a single success; plus real SQLITE_FULL, repeat-after-success, fail/fail/succeed through the handler's retry loop under the simulated clock, close/reopen and dirty reopen after every pre-history batch, and equality with a twin database that never restarted. The fault points of a sampled case are enumerated completely; the cases themselves are sampled.",
   note="Trusted: the fault-injecting driver wrapper (simrt/faultdriver.go); crash points are driver-call boundaries (no torn writes inside one SQLite commit); SQLite, database/sql and go-sqlite3 are real.",
   technique="deterministic simulation: exhaustive fault-point enumeration per sampled batch (error / cancel / crash copy), answer equality oracle", design="3/C14")
CHECKS["C12"] = dict(engine="ws-session", category="exploration",
   text="Seeded sequences of valid and labelled-corrupt frames sent by a real coder/websocket client to the real ServeMux/Relay over a simulated connection (chunked down to 1 byte, every chunk a scheduler decision, simulated clock for rate limiter, ping and deadlines) with a handler that emits its own stream: the handler must receive exactly the deliverable frames in order, the client exactly the emissions in order plus one rejection per other frame, and an orderly close must end the session. Sampling, not proof.",
   note="Trusted: the harness's wire encoder, NIP-01 canonical serializer and BIP-340 signing (btcec) as reference for well-formed/authentic; the simulated connection; coder/websocket is real on both ends.",
   technique="deterministic simulation: labelled-frame oracle over a simulated transport and clock", design="3/C12")
CHECKS["C13"] = dict(engine="termination", category="fault_enumeration",
   text="For each sampled (handler composition incl. SQLite, nested merges and any middleware stack; client history) EVERY cut point of the history is executed with context cancellation (draining and never-reading peer) and inbound close: serving must return within 1s of simulated time, the goroutine census must equal the one before the session, router registries must be empty and prometheus gauges back at zero, and the bubble must end without blocked goroutines. WebSocket clause: for sampled (send timeout, ping interval incl. disabled, connection buffering) a flooding handler and a peer that stops reading - the session must be over one send timeout after a server write began to block. Cut points of a sampled case are enumerated completely; cases and schedules are sampled.",
   note="Trusted: cooperative scheduler + instrumenter, testing/synctest deadlock detection at the end of a bubble, goroutine identification by stack signature; the simulated connection for the WebSocket clause.",
   technique="deterministic simulation: exhaustive cut-point enumeration per sampled composition/history + resource census", design="3/C13")
CHECKS["C16"] = dict(engine="storage-replies", category="exploration",
   text="Seeded pipelined message sequences over all five client message types on CacheHandler and SQLiteHandler sessions (real stores), with stalled readers and schedules: replies are parsed per session in request order (one OK with the id per EVENT - for the cache the verdict and duplicate: prefix against the sequential store model -, matching labelled events then one EOSE per REQ, one COUNT per COUNT, nothing for CLOSE/AUTH, nothing interleaved or extra); then the cache is dumped and restored into an empty cache and answers are compared. Sampling, not proof.",
   note="Trusted: the sequential cache model (C15), reference filter predicate; for SQLite only grammar/labels/order/filter conformance (its OK precedes the asynchronous insertion).",
   technique="deterministic simulation: seeded pipelined histories with back-pressure + reply grammar oracle, dump/restore as restart fault", design="3/C16")
ALL = ["C%02d" % i for i in range(1, 21)]
PENDING = "check not built yet in this revision of /verif (planned: DESIGN.md section 3); not claimed"
m = {
 "version": 1,
 "setup_cmd": "./setup.sh",
 "hooks": {
   "guard": "verif",
   "enable": "no source change in /repo is needed: each check copies /repo's working tree to a scratch directory, injects /verif/tools/verifsim and /verif/tools/inject/*_verif_export.go there, rewrites the copy with /verif/bin/instrument and builds it with go1.26.8 -overlay /verif/build/rt/overlay.json (runtime select hook)",
   "baseline_off_cmd": "cd /repo && go test -mod=mod -json -vet=off -count=1 -timeout 25m ./...",
   "source_commits": [],
   "add_only": True,
 },
 "engines": [
   {"name": "router", "path": "sim/props/c07_router.go", "serves_properties": ["C07"], "kind_free_text": "deterministic simulation, statement-level cooperative scheduling, history oracle"},
   {"name": "concurrent-cache", "path": "sim/props/c15_concurrent.go", "serves_properties": ["C15"], "kind_free_text": "statement-level interleavings of cache operations, porcupine linearizability check"},
   {"name": "merge", "path": "sim/props/merge_engine.go", "serves_properties": ["C08", "C09"], "kind_free_text": "real MergeHandler over scripted children, every emission a scheduler decision"},
   {"name": "mw-limits / mw-stateful / mw-metrics", "path": "sim/props/mw_engine.go", "serves_properties": ["C17", "C18", "C19"], "kind_free_text": "middleware stacks between scripted clients and a recording downstream, simulated clock"},
   {"name": "sqlite-faults", "path": "sim/props/c14_faults.go", "serves_properties": ["C14"], "kind_free_text": "fault-injecting database/sql driver over real go-sqlite3; every driver call of a batch is failed, cancelled and crashed"},
   {"name": "sqlite-store", "path": "sim/props/sqlite_engine.go", "serves_properties": ["C06"], "kind_free_text": "real SQLite behind database/sql, batch histories, specification set"},
   {"name": "ws-session", "path": "sim/props/c12_ws.go", "serves_properties": ["C12"], "kind_free_text": "real websocket client and relay over a simulated connection and clock"},
   {"name": "termination", "path": "sim/props/c13_termination.go", "serves_properties": ["C13"], "kind_free_text": "random handler trees, every cut point x ending x peer behaviour, resource census; WebSocket stall scenario"},
   {"name": "storage-replies", "path": "sim/props/c16_replies.go", "serves_properties": ["C16"], "kind_free_text": "pipelined sessions on cache and SQLite handlers, reply grammar, dump/restore"},
   {"name": "cache", "path": "sim/props/cache_engine.go", "serves_properties": ["C03", "C04", "C05"], "kind_free_text": "seeded operation and restart-fault sequences against an executable specification (relation)"},
 ],
 "checks": [],
 "not_applicable": [],
 "notes": "All checks: ./check <ID> quick|thorough ; replay: ./check <ID> --replay <file>. Exit 2 = trouble of the machinery (build, watchdog, determinism/replay divergence), never a VIOLATION.",
}
for pid in ALL:
    if pid in CHECKS:
        c = CHECKS[pid]
        m["checks"].append({
          "property_id": pid,
          "quick_cmd": "./check %s quick" % pid,
          "thorough_cmd": "./check %s thorough" % pid,
          "evidence_file": "/verif/evidence/%s.json" % pid,
          "replay_cmd_template": "./check %s --replay {path}" % pid,
          "engine": c["engine"],
          "level_claimed": {"category": c["category"], "text": c["text"], "design_ref": c["design"]},
          "level_note": c["note"],
          "technique": c["technique"],
        })
    else:
        m["not_applicable"].append({"property_id": pid, "reason": NA.get(pid, PENDING)})
json.dump(m, open("/verif/MANIFEST.json", "w"), indent=1)
print("checks:", [c["property_id"] for c in m["checks"]])
