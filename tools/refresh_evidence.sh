#!/bin/bash
# run every quick check once against /repo (refreshes /verif/evidence/*.json) and validate manifest + evidence
cd "$(dirname "$0")/.."
rc=0
for p in $(python3 -c "import json;print(' '.join(c['property_id'] for c in json.load(open('MANIFEST.json'))['checks']))"); do
  out=$(./check $p quick 2>&1); r=$?
  echo "$p exit=$r :: $(echo "$out" | tail -1)"
  [ $r -ne 0 ] && { rc=1; echo "$out" | grep -E "VIOLATION|TROUBLE|KNOWN" | head; }
done
python3-vt - <<'PY'
import json,jsonschema
m=json.load(open('/verif/MANIFEST.json'))
jsonschema.validate(m, json.load(open('/root/.vp/MANIFEST.schema.json')))
for c in m['checks']:
    e=json.load(open(c['evidence_file']))
    jsonschema.validate(e, json.load(open('/root/.vp/EVIDENCE.schema.json')))
    assert e['property_id']==c['property_id'] and e['level']==c['level_claimed']['category'], c['property_id']
print('manifest and', len(m['checks']), 'evidence files valid')
PY
exit $rc
