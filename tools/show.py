import json,sys
o=json.load(open(sys.argv[1]))
for k in ['runs','completed','steps','switches','preemptions','wall_s','faults','probes','known_hits','other_props','harness_errors']:
    print(k, o.get(k))
print('scheds',len(o.get('scheds') or []), 'states',len(o.get('states') or []), 'nontrivial',len(o.get('nontrivial') or []))
f=o.get('failure')
if f:
    print('FAILURE expect:', json.dumps(f.get('expect')))
    print('case:', json.dumps(f.get('case'))[:int(sys.argv[2]) if len(sys.argv)>2 else 1500])
    for l in (f.get('trace') or [])[-40:]: print('   ',l)
