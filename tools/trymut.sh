#!/bin/bash
# trymut.sh <name> <prop> <python-replace-script>: apply an edit to a scratch copy of /repo and run a check against it
# usage: trymut.sh name PROP file 'old' 'new' [budget]
name=$1; prop=$2; file=$3; old=$4; new=$5; budget=${6:-15}
D=/tmp/verif-mut/$name; rm -rf $D; mkdir -p $D; rsync -a --exclude .git /repo/ $D/
python3 - "$D/$file" "$old" "$new" <<'PY'
import sys
p,old,new=sys.argv[1:4]
s=open(p).read()
if s.count(old)!=1:
    print("MUTATION ANCHOR COUNT", s.count(old)); sys.exit(3)
open(p,'w').write(s.replace(old,new))
PY
[ $? = 0 ] || exit 3
cd /verif && VERIF_REPO=$D VERIF_BUDGET_S=$budget ./check $prop quick 2>&1 | tail -8; echo "exit=${PIPESTATUS[0]}"
rm -rf $D
