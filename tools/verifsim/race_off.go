//go:build !race

package verifsim

import "unsafe"

const RaceBuild = false

func raceDisable()                      {}
func raceEnable()                       {}
func raceAcquire(p unsafe.Pointer)      {}
func raceRelease(p unsafe.Pointer)      {}
func raceReleaseMerge(p unsafe.Pointer) {}
