//go:build race

package verifsim

import (
	"runtime"
	"unsafe"
)

// RaceBuild reports whether the binary was built with -race. In such a build
// the scheduler hides its own synchronisation from the race detector
// (runtime.RaceDisable around it), so that the detector sees only the
// happens-before edges the PROGRAM creates - on a serialised, replayable
// execution.
const RaceBuild = true

func raceDisable()                       { runtime.RaceDisable() }
func raceEnable()                        { runtime.RaceEnable() }
func raceAcquire(p unsafe.Pointer)       { runtime.RaceAcquire(p) }
func raceRelease(p unsafe.Pointer)       { runtime.RaceRelease(p) }
func raceReleaseMerge(p unsafe.Pointer)  { runtime.RaceReleaseMerge(p) }
