package verifsim

import (
	"fmt"
	"iter"
	"reflect"
	"sort"
)

// RangeMap replaces `range m` over a map in instrumented packages: while a
// scheduler is active the keys are visited in an order that is a pure function
// of the schedule (sorted, or a seeded permutation of that when the schedule has
// a map seed), skipping keys deleted meanwhile; entries
// added during the iteration are not visited (allowed by the Go spec).
func RangeMap[K comparable, V any](m map[K]V) iter.Seq2[K, V] {
	return func(yield func(K, V) bool) {
		if active.Load() == nil {
			for k, v := range m {
				if !yield(k, v) {
					return
				}
			}
			return
		}
		keys := SortedKeys(m)
		if s := active.Load(); s != nil {
			if seed := s.mapSeed.Load(); seed != 0 && len(keys) > 1 {
				// Go randomises map iteration: the visiting order is one more
				// decision of the schedule (a permutation drawn from the map seed
				// and the number of this iteration within the run)
				x := seed + s.mapIter.Add(1)*0x9e3779b97f4a7c15
				for i := len(keys) - 1; i > 0; i-- {
					x += 0x9e3779b97f4a7c15
					z := x
					z = (z ^ (z >> 30)) * 0xbf58476d1ce4e5b9
					z = (z ^ (z >> 27)) * 0x94d049bb133111eb
					z ^= z >> 31
					j := int(z % uint64(i+1))
					keys[i], keys[j] = keys[j], keys[i]
				}
			}
		}
		for _, k := range keys {
			v, ok := m[k]
			if !ok {
				continue
			}
			if !yield(k, v) {
				return
			}
		}
	}
}

// SortedKeys returns the keys of m in a process-independent order.
func SortedKeys[K comparable, V any](m map[K]V) []K {
	type ks struct {
		k K
		s string
	}
	l := make([]ks, 0, len(m))
	for k := range m {
		l = append(l, ks{k, keyString(any(k))})
	}
	sort.Slice(l, func(i, j int) bool { return l[i].s < l[j].s })
	out := make([]K, len(l))
	for i := range l {
		out[i] = l[i].k
	}
	return out
}

func keyString(k any) string {
	switch v := k.(type) {
	case string:
		return v
	case int:
		return fmt.Sprintf("%020d", int64(v)+(1<<62))
	case int64:
		return fmt.Sprintf("%020d", v+(1<<62))
	}
	rv := reflect.ValueOf(k)
	for rv.Kind() == reflect.Pointer && !rv.IsNil() {
		rv = rv.Elem()
	}
	if rv.Kind() == reflect.Struct {
		// pointer to a record with an identifying string field: use it
		if f := rv.FieldByName("ID"); f.IsValid() && f.Kind() == reflect.String {
			return "ID:" + f.String()
		}
	}
	if rv.CanInterface() {
		return fmt.Sprintf("%T:%+v", rv.Interface(), rv.Interface())
	}
	return fmt.Sprintf("%+v", rv)
}
