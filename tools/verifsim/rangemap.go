package verifsim

import (
	"fmt"
	"iter"
	"reflect"
	"sort"
)

// RangeMap replaces `range m` over a map in instrumented packages: while a
// scheduler is active the keys are visited in a stable order (so that a run is
// a pure function of its schedule), skipping keys deleted meanwhile; entries
// added during the iteration are not visited (allowed by the Go spec).
func RangeMap[K comparable, V any](m map[K]V) iter.Seq2[K, V] {
	return func(yield func(K, V) bool) {
		if active.Load() == nil {
			for k, v := range m {
				if !yield(k, v) {
					return
				}
			}
			return
		}
		for _, k := range SortedKeys(m) {
			v, ok := m[k]
			if !ok {
				continue
			}
			if !yield(k, v) {
				return
			}
		}
	}
}

// SortedKeys returns the keys of m in a process-independent order.
func SortedKeys[K comparable, V any](m map[K]V) []K {
	type ks struct {
		k K
		s string
	}
	l := make([]ks, 0, len(m))
	for k := range m {
		l = append(l, ks{k, keyString(any(k))})
	}
	sort.Slice(l, func(i, j int) bool { return l[i].s < l[j].s })
	out := make([]K, len(l))
	for i := range l {
		out[i] = l[i].k
	}
	return out
}

func keyString(k any) string {
	switch v := k.(type) {
	case string:
		return v
	case int:
		return fmt.Sprintf("%020d", int64(v)+(1<<62))
	case int64:
		return fmt.Sprintf("%020d", v+(1<<62))
	}
	rv := reflect.ValueOf(k)
	for rv.Kind() == reflect.Pointer && !rv.IsNil() {
		rv = rv.Elem()
	}
	if rv.Kind() == reflect.Struct {
		// pointer to a record with an identifying string field: use it
		if f := rv.FieldByName("ID"); f.IsValid() && f.Kind() == reflect.String {
			return "ID:" + f.String()
		}
	}
	if rv.CanInterface() {
		return fmt.Sprintf("%T:%+v", rv.Interface(), rv.Interface())
	}
	return fmt.Sprintf("%+v", rv)
}
