// empty: allows body-less linkname'd function declarations in this package
