// Package verifsim is the cooperative scheduler core of the deterministic
// simulator. It is NOT part of high-moctane/mocrelay: the check copies it into a
// scratch copy of the repository (as <module>/verifsim) next to the
// instrumented sources, so that instrumented code and harness share it.
//
// With no scheduler active every entry point is a no-op / behaves like the
// sync primitive it replaces.
//
// Structure (chosen so that a -race build can hide the scheduler from the race
// detector, see race_on.go): goroutines never touch scheduler state. A
// goroutine that yields allocates a request, sends it on a buffered channel and
// blocks on the request's private channel; only the driver goroutine owns the
// registry, the parked set and the choice. Simulated lock state is the one thing
// both sides touch; those functions are marked go:norace and use no maps.
package verifsim

import (
	"fmt"
	"hash/fnv"
	"sort"
	"strconv"
	"sync"
	"sync/atomic"
	"unsafe"
)

//go:linkname verifGoid runtime.verifGoid
func verifGoid() uint64

//go:linkname verifSetSelectHook runtime.verifSetSelectHook
func verifSetSelectHook(f func(uint32) uint32)

// G is one goroutine known to the scheduler (driver-side record).
type G struct {
	ID   uint64
	Name string
	Site string // site of the yield it is parked at
	Seq  int    // registration order

	req *request // the request it is parked with (nil: running / blocked elsewhere)
}

type request struct {
	kind  int // 0 park, 1 register-name
	goid  uint64
	site  string
	name  string
	want  *rwcore
	write bool
	wake  chan struct{}
}

// Status of one scheduling step.
type Status int

const (
	Ran          Status = iota // one goroutine was released and the system is quiescent again
	Idle                       // nothing is parked
	LockDeadlock               // goroutines are parked but all of them wait for simulated locks
)

// Sched is the scheduler. Exactly one goroutine (the driver) calls Step.
type Sched struct {
	// Wait must block until every other goroutine of the bubble is durably
	// blocked (testing/synctest.Wait).
	Wait func()
	// Choose picks the index of the goroutine to release. cur is the index of
	// the goroutine released by the previous step inside enabled, or -1.
	Choose func(step int, cur int, enabled []*G) int
	// OnLock, if set, is called (on the acquiring goroutine) with the id of the
	// goroutine (see GoroutineID) for every simulated lock acquisition. Not
	// used in race builds.
	OnLock func(goid string, lockID int, kind string)

	reqCh chan *request
	pool  sync.Pool

	// driver-only state
	gs     map[uint64]*G
	nameN  map[string]int
	parked []*G
	cur    *G
	nextG  int

	Steps    int
	Switches int
	hash     uint64 // running hash of (name, site) at every switch

	trMu     sync.Mutex
	ring     []string
	trN      int
	traceCap int

	nextL   atomic.Int64
	selMode atomic.Uint64
	mapSeed atomic.Uint64 // 0: maps are ranged in sorted key order
	mapIter atomic.Uint64
	stepCtr atomic.Uint64
	driver  uint64 // goroutine id of the driver: never parks

	driverToken byte // race builds: address used for goroutine -> driver edges
}

var active atomic.Pointer[Sched]

// New creates a scheduler; Activate makes it the process-wide one.
func New() *Sched {
	return &Sched{
		reqCh:    make(chan *request, 1<<14),
		gs:       make(map[uint64]*G),
		nameN:    make(map[string]int),
		hash:     1469598103934665603,
		traceCap: 400,
	}
}

// Activate installs s. selMode: 0 = every select polls in source order,
// 1 = "last case first", otherwise a hash of (selMode, step) decides.
// SetMapSeed makes every `range` over a map of the instrumented packages visit
// its keys in a permutation drawn from seed (0: sorted order).
func (s *Sched) SetMapSeed(seed uint64) { s.mapSeed.Store(seed) }

func (s *Sched) Activate(selMode uint64) {
	s.selMode.Store(selMode)
	s.driver = verifGoid()
	verifSetSelectHook(func(n uint32) uint32 {
		a := active.Load()
		if a == nil {
			return n - 1
		}
		switch m := a.selMode.Load(); m {
		case 0:
			return n - 1
		case 1:
			return 0
		default:
			x := m*0x9E3779B97F4A7C15 ^ (a.stepCtr.Load()+1)*0xBF58476D1CE4E5B9 ^ uint64(n)*0x94D049BB133111EB
			x ^= x >> 31
			x *= 0xD6E8FEB86659FD93
			x ^= x >> 29
			return uint32(x % uint64(n))
		}
	})
	active.Store(s)
}

// Deactivate removes the scheduler. Goroutines that are still parked stay
// blocked for ever (durably, on their private channel): a run that ends with
// parked goroutines is an abnormal end, the bubble then reports them as leaked.
func (s *Sched) Deactivate() {
	active.CompareAndSwap(s, nil)
	verifSetSelectHook(nil)
}

// Active reports whether a scheduler is installed.
func Active() bool { return active.Load() != nil }

// Yield is the call the instrumenter inserts before every statement.
func Yield(site string) {
	s := active.Load()
	if s == nil {
		return
	}
	id := verifGoid()
	if id == s.driver {
		return
	}
	r := s.getReq()
	r.goid, r.site = id, site
	s.park(r)
	s.putReq(r)
}

// NameMe registers the calling goroutine under an explicit name (harness
// actors and stub handlers). Must precede the goroutine's first Yield.
func NameMe(name string) {
	s := active.Load()
	if s == nil {
		return
	}
	id := verifGoid()
	if id == s.driver {
		return
	}
	raceDisable()
	s.reqCh <- &request{kind: 1, goid: id, name: name}
	raceEnable()
}

// Requests are pooled per scheduler (their channels belong to the run's bubble)
// in ordinary builds; in race builds each is fresh (a reused object written by
// two goroutines would look like a race once the scheduler's own
// synchronisation is hidden).
func (s *Sched) getReq() *request {
	if !RaceBuild {
		if r, ok := s.pool.Get().(*request); ok {
			return r
		}
	}
	return &request{wake: make(chan struct{}, 1)}
}

func (s *Sched) putReq(r *request) {
	if !RaceBuild {
		*r = request{wake: r.wake}
		s.pool.Put(r)
	}
}

// park hands the request to the driver and blocks until released.
func (s *Sched) park(r *request) {
	if active.Load() != s {
		return
	}
	if r.wake == nil {
		r.wake = make(chan struct{}, 1)
	}
	if RaceBuild {
		// everything this goroutine did so far happens-before what the DRIVER
		// does after the next quiescence (it reads harness data); this creates
		// no edge between program goroutines
		raceReleaseMerge(unsafe.Pointer(&s.driverToken))
	}
	raceDisable()
	s.reqCh <- r
	<-r.wake
	raceEnable()
}

// HarnessSync is called by a harness actor when it ends: what it did becomes
// visible to the driver (race builds only).
func HarnessSync() {
	if s := active.Load(); s != nil && RaceBuild {
		raceReleaseMerge(unsafe.Pointer(&s.driverToken))
	}
}

// RaceDisable / RaceEnable let the harness hide its own bookkeeping
// synchronisation (stamps) from the race detector.
func RaceDisable() { raceDisable() }
func RaceEnable()  { raceEnable() }

// GoroutineID returns the id of the calling goroutine (the value OnLock reports).
func GoroutineID() string { return strconv.FormatUint(verifGoid(), 10) }

// ---------------------------------------------------------------------------
// driver side

//go:norace
func (s *Sched) drain() {
	// Requests that arrived since the last quiescence: which of several runnable
	// goroutines reached its yield first is decided by the Go runtime (it can
	// vary under load: asynchronous preemption), so the batch is put into
	// creation order of the goroutines (goroutine ids grow with creation on the
	// single P) before names are given out and the parked list is extended.
	var batch []*request
	for {
		select {
		case r := <-s.reqCh:
			batch = append(batch, r)
			continue
		default:
		}
		break
	}
	if len(batch) > 1 {
		// insertion sort, stable: the requests of one goroutine keep their order
		for i := 1; i < len(batch); i++ {
			for j := i; j > 0 && batch[j-1].goid > batch[j].goid; j-- {
				batch[j-1], batch[j] = batch[j], batch[j-1]
			}
		}
	}
	for _, r := range batch {
		g := s.gs[r.goid]
		if g == nil {
			name := r.name
			if r.kind == 0 {
				n := s.nameN[r.site]
				s.nameN[r.site] = n + 1
				name = r.site + "#" + strconv.Itoa(n)
			}
			g = &G{ID: r.goid, Name: name, Seq: s.nextG}
			s.nextG++
			s.gs[r.goid] = g
		}
		if r.kind == 0 {
			g.Site = r.site
			g.req = r
			s.parked = append(s.parked, g)
		}
	}
}

//go:norace
func (s *Sched) lockAvailable(r *request) bool {
	c := r.want
	c.st.Lock()
	defer c.st.Unlock()
	if r.write {
		return c.writer == 0 && c.readers == 0
	}
	if c.writer != 0 {
		return false
	}
	// writer preference, as sync.RWMutex: a parked writer blocks new readers
	for _, g := range s.parked {
		if g.req != nil && g.req.want == c && g.req.write {
			return false
		}
	}
	return true
}

// Parked returns the number of goroutines parked at a yield (driver only).
func (s *Sched) Parked() int {
	raceDisable()
	defer raceEnable()
	s.drain()
	return len(s.parked)
}

// Step waits for quiescence, then releases one enabled goroutine and waits
// for quiescence again.
func (s *Sched) Step() (Status, *G) {
	raceDisable()
	st, g := s.step()
	raceEnable()
	if RaceBuild {
		raceAcquire(unsafe.Pointer(&s.driverToken))
	}
	return st, g
}

//go:norace
func (s *Sched) step() (Status, *G) {
	s.Wait()
	s.drain()
	if len(s.parked) == 0 {
		return Idle, nil
	}
	enabled := make([]*G, 0, len(s.parked))
	for _, g := range s.parked {
		if g.req.want == nil || s.lockAvailable(g.req) {
			enabled = append(enabled, g)
		}
	}
	if len(enabled) == 0 {
		return LockDeadlock, nil
	}
	sort.Slice(enabled, func(i, j int) bool {
		if enabled[i].Name != enabled[j].Name {
			return enabled[i].Name < enabled[j].Name
		}
		return enabled[i].Seq < enabled[j].Seq
	})
	cur := -1
	for i, g := range enabled {
		if g == s.cur {
			cur = i
		}
	}
	idx := 0
	if s.Choose != nil {
		idx = s.Choose(s.Steps, cur, enabled)
		if idx < 0 || idx >= len(enabled) {
			idx = 0
		}
	} else if cur >= 0 {
		idx = cur
	}
	g := enabled[idx]
	if g != s.cur {
		s.Switches++
		h := fnv.New64a()
		h.Write([]byte(g.Name))
		h.Write([]byte{0})
		h.Write([]byte(g.Site))
		s.hash = (s.hash ^ h.Sum64()) * 1099511628211
	}
	s.cur = g
	for i, p := range s.parked {
		if p == g {
			s.parked = append(s.parked[:i], s.parked[i+1:]...)
			break
		}
	}
	s.Steps++
	s.stepCtr.Add(1)
	s.addTrace(g.Name + " @" + g.Site)
	r := g.req
	g.req = nil
	r.wake <- struct{}{}
	s.Wait()
	return Ran, g
}

// The trace is a fixed ring written by element assignment only: copy and
// append go through runtime helpers that report to the race detector even from
// go:norace functions.
//
//go:norace
func (s *Sched) addTrace(line string) {
	if s.traceCap <= 0 {
		return
	}
	s.trMu.Lock()
	if len(s.ring) != s.traceCap {
		old := s.traceLocked(len(s.ring))
		s.ring = make([]string, s.traceCap)
		s.trN = 0
		for _, l := range old {
			s.ring[s.trN%len(s.ring)] = l
			s.trN++
		}
	}
	s.ring[s.trN%len(s.ring)] = strconv.Itoa(s.Steps) + " " + line
	s.trN++
	s.trMu.Unlock()
}

//go:norace
func (s *Sched) traceLocked(n int) []string {
	k := min(n, s.trN, len(s.ring))
	out := make([]string, k)
	for i := 0; i < k; i++ {
		out[i] = s.ring[(s.trN-k+i)%len(s.ring)]
	}
	return out
}

// SetTraceCap sets how many trace lines are kept.
func (s *Sched) SetTraceCap(n int) { s.traceCap = n }

// Logf adds a harness line to the trace ring (any goroutine).
func (s *Sched) Logf(format string, a ...any) {
	line := "# " + fmt.Sprintf(format, a...)
	raceDisable()
	s.addTrace(line)
	raceEnable()
}

// Trace returns the last lines of the trace.
//
//go:norace
func (s *Sched) Trace(n int) []string {
	s.trMu.Lock()
	defer s.trMu.Unlock()
	return s.traceLocked(n)
}

// ScheduleHash identifies the sequence of context switches of this run.
func (s *Sched) ScheduleHash() uint64 { return s.hash }

// ParkedNames lists parked goroutines with their sites and lock wishes (driver only).
func (s *Sched) ParkedNames() []string {
	raceDisable()
	s.drain()
	var out []string
	for _, g := range s.parked {
		w := ""
		if g.req != nil && g.req.want != nil {
			w = " wants lock#" + strconv.FormatInt(g.req.want.id.Load(), 10) + " write=" + strconv.FormatBool(g.req.write)
		}
		out = append(out, g.Name+" @"+g.Site+w)
	}
	raceEnable()
	sort.Strings(out)
	return out
}

// NameOf returns the scheduler's name of the goroutine with that id (driver
// only, at quiescence).
func (s *Sched) NameOf(goid string) string {
	raceDisable()
	defer raceEnable()
	s.drain()
	for id, g := range s.gs {
		if strconv.FormatUint(id, 10) == goid {
			return g.Name
		}
	}
	return ""
}

// ---------------------------------------------------------------------------
// simulated locks

type rwcore struct {
	st      sync.Mutex
	writer  uint64 // goroutine id of the holder (0: none)
	readers int
	id      atomic.Int64
	rSem    byte // race builds: released by Unlock, acquired by RLock and Lock
	wSem    byte // race builds: release-merged by RUnlock, acquired by Lock
}

func (s *Sched) lockID(c *rwcore) int {
	if v := c.id.Load(); v != 0 {
		return int(v)
	}
	c.id.CompareAndSwap(0, s.nextL.Add(1))
	return int(c.id.Load())
}

func (s *Sched) lock(c *rwcore, write bool, site string) (acquired bool) {
	raceDisable()
	acquired = s.lockInner(c, write, site)
	raceEnable()
	if acquired && RaceBuild {
		// what sync.RWMutex tells the detector
		raceAcquire(unsafe.Pointer(&c.rSem))
		if write {
			raceAcquire(unsafe.Pointer(&c.wSem))
		}
	}
	return acquired
}

//go:norace
func (c *rwcore) tryAcquire(goid uint64, write bool) bool {
	c.st.Lock()
	defer c.st.Unlock()
	if write {
		if c.writer == 0 && c.readers == 0 {
			c.writer = goid
			return true
		}
		return false
	}
	if c.writer == 0 {
		c.readers++
		return true
	}
	return false
}

func (s *Sched) lockInner(c *rwcore, write bool, site string) (acquired bool) {
	goid := verifGoid()
	id := s.lockID(c)
	isDriver := goid == s.driver
	for {
		if !isDriver {
			r := &request{goid: goid, site: site, want: c, write: write}
			raceEnable() // park does its own disable/enable
			s.park(r)
			raceDisable()
		}
		if c.tryAcquire(goid, write) {
			if s.OnLock != nil && !RaceBuild {
				k := "R"
				if write {
					k = "W"
				}
				s.OnLock(strconv.FormatUint(goid, 10), id, k)
			}
			return true
		}
		if active.Load() != s {
			return false // scheduler went away while waiting: caller falls back to the real lock
		}
		if isDriver {
			panic("verifsim: the driver goroutine needs a simulated lock that is held by a parked goroutine")
		}
	}
}

//go:norace
func (c *rwcore) simHeldInner(write bool) bool {
	c.st.Lock()
	defer c.st.Unlock()
	if write {
		return c.writer != 0
	}
	return c.readers > 0
}

func (c *rwcore) simHeld(write bool) bool {
	raceDisable()
	defer raceEnable()
	return c.simHeldInner(write)
}

//go:norace
func (c *rwcore) release(write bool) {
	c.st.Lock()
	if write {
		c.writer = 0
	} else {
		c.readers--
	}
	c.st.Unlock()
}

func (c *rwcore) unlock(write bool) {
	if RaceBuild {
		if write {
			raceRelease(unsafe.Pointer(&c.rSem))
		} else {
			raceReleaseMerge(unsafe.Pointer(&c.wSem))
		}
	}
	raceDisable()
	c.release(write)
	raceEnable()
}

// Mutex replaces sync.Mutex in instrumented packages.
type Mutex struct {
	real sync.Mutex
	c    rwcore
}

func (m *Mutex) Lock() {
	if s := active.Load(); s != nil && s.lock(&m.c, true, "lock") {
		return
	}
	m.real.Lock()
}

func (m *Mutex) Unlock() {
	if m.c.simHeld(true) {
		m.c.unlock(true)
		return
	}
	m.real.Unlock()
}

func (m *Mutex) TryLock() bool {
	if s := active.Load(); s != nil {
		raceDisable()
		defer raceEnable()
		return m.c.tryAcquire(verifGoid(), true)
	}
	return m.real.TryLock()
}

// RWMutex replaces sync.RWMutex in instrumented packages.
type RWMutex struct {
	real sync.RWMutex
	c    rwcore
}

func (m *RWMutex) Lock() {
	if s := active.Load(); s != nil && s.lock(&m.c, true, "lock") {
		return
	}
	m.real.Lock()
}

func (m *RWMutex) Unlock() {
	if m.c.simHeld(true) {
		m.c.unlock(true)
		return
	}
	m.real.Unlock()
}

func (m *RWMutex) RLock() {
	if s := active.Load(); s != nil && s.lock(&m.c, false, "rlock") {
		return
	}
	m.real.RLock()
}

func (m *RWMutex) RUnlock() {
	if m.c.simHeld(false) {
		m.c.unlock(false)
		return
	}
	m.real.RUnlock()
}

func (m *RWMutex) TryLock() bool {
	if s := active.Load(); s != nil {
		raceDisable()
		defer raceEnable()
		return m.c.tryAcquire(verifGoid(), true)
	}
	return m.real.TryLock()
}

func (m *RWMutex) TryRLock() bool {
	if s := active.Load(); s != nil {
		raceDisable()
		defer raceEnable()
		return m.c.tryAcquire(verifGoid(), false)
	}
	return m.real.TryRLock()
}

type rlocker RWMutex

func (r *rlocker) Lock()   { (*RWMutex)(r).RLock() }
func (r *rlocker) Unlock() { (*RWMutex)(r).RUnlock() }

// RLocker mirrors sync.RWMutex.RLocker.
func (m *RWMutex) RLocker() sync.Locker { return (*rlocker)(m) }

// YieldVal is a preemption point placed behind the evaluation of v (the
// instrumenter wraps value-returning calls into sync/atomic with it).
func YieldVal[T any](v T, loc string) T {
	Yield(loc)
	return v
}
