// Package verifsim is the cooperative scheduler core of the deterministic
// simulator. It is NOT part of high-moctane/mocrelay: the check copies it into a
// scratch copy of the repository (as <module>/verifsim) next to the
// instrumented sources, so that instrumented code and harness share it.
//
// With no scheduler active every entry point is a no-op / behaves like the
// sync primitive it replaces.
package verifsim

import (
	"fmt"
	"hash/fnv"
	"sort"
	"sync"
	"sync/atomic"
	_ "unsafe"
)

//go:linkname verifGoid runtime.verifGoid
func verifGoid() uint64

//go:linkname verifSetSelectHook runtime.verifSetSelectHook
func verifSetSelectHook(f func(uint32) uint32)

// G is one goroutine known to the scheduler.
type G struct {
	ID   uint64
	Name string
	Site string // site of the yield it is parked at
	Seq  int    // registration order

	wake chan struct{}
	want *lockReq
}

type lockReq struct {
	c     *rwcore
	write bool
}

// Status of one scheduling step.
type Status int

const (
	Ran          Status = iota // one goroutine was released and the system is quiescent again
	Idle                       // nothing is parked
	LockDeadlock               // goroutines are parked but all of them wait for simulated locks
)

// Sched is the scheduler. Exactly one goroutine (the driver) calls Step.
type Sched struct {
	// Wait must block until every other goroutine of the bubble is durably
	// blocked (testing/synctest.Wait).
	Wait func()
	// Choose picks the index of the goroutine to release. cur is the index of
	// the goroutine released by the previous step inside enabled, or -1.
	Choose func(step int, cur int, enabled []*G) int
	// OnLock, if set, is called (on the acquiring goroutine) for every
	// simulated lock acquisition and release.
	OnLock func(g *G, lockID int, kind string)

	mu     sync.Mutex
	gs     map[uint64]*G
	nameN  map[string]int
	parked map[*G]struct{}
	cur    *G
	nextG  int
	nextL  int

	Steps    int
	Switches int
	hash     uint64 // running hash of (name, site) at every switch
	trace    []string
	traceCap int

	selMode atomic.Uint64
	stepCtr atomic.Uint64
	driver  uint64 // goroutine id of the driver: never parks
}

var active atomic.Pointer[Sched]

// New creates a scheduler; Activate makes it the process-wide one.
func New() *Sched {
	return &Sched{
		gs:       make(map[uint64]*G),
		nameN:    make(map[string]int),
		parked:   make(map[*G]struct{}),
		hash:     1469598103934665603,
		traceCap: 400,
	}
}

// Activate installs s. selMode: 0 = every select polls in source order,
// 1 = "last case first", otherwise a hash of (selMode, step) decides.
func (s *Sched) Activate(selMode uint64) {
	s.selMode.Store(selMode)
	s.driver = verifGoid()
	verifSetSelectHook(func(n uint32) uint32 {
		a := active.Load()
		if a == nil {
			return n - 1
		}
		switch m := a.selMode.Load(); m {
		case 0:
			return n - 1
		case 1:
			return 0
		default:
			x := m*0x9E3779B97F4A7C15 ^ (a.stepCtr.Load()+1)*0xBF58476D1CE4E5B9 ^ uint64(n)*0x94D049BB133111EB
			x ^= x >> 31
			x *= 0xD6E8FEB86659FD93
			x ^= x >> 29
			return uint32(x % uint64(n))
		}
	})
	active.Store(s)
}

// Deactivate removes the scheduler. Goroutines that are still parked stay
// blocked for ever (durably, on their private channel): a run that ends with
// parked goroutines is an abnormal end, the bubble then reports them as leaked.
func (s *Sched) Deactivate() {
	active.CompareAndSwap(s, nil)
	verifSetSelectHook(nil)
}

// Active reports whether a scheduler is installed.
func Active() bool { return active.Load() != nil }

// Yield is the call the instrumenter inserts before every statement.
func Yield(site string) {
	s := active.Load()
	if s == nil || verifGoid() == s.driver {
		return
	}
	s.park(s.me(site), site, nil)
}

// Me returns the scheduler's record of the calling goroutine (nil when no
// scheduler is active).
func Me() *G {
	s := active.Load()
	if s == nil {
		return nil
	}
	return s.me("?")
}

func (s *Sched) me(site string) *G {
	id := verifGoid()
	s.mu.Lock()
	g := s.gs[id]
	if g == nil {
		n := s.nameN[site]
		s.nameN[site] = n + 1
		g = &G{ID: id, Name: fmt.Sprintf("%s#%d", site, n), wake: make(chan struct{}, 1), Seq: s.nextG}
		s.nextG++
		s.gs[id] = g
	}
	s.mu.Unlock()
	return g
}

// NameMe registers the calling goroutine under an explicit name (harness
// actors). Must be called before the goroutine's first Yield.
func NameMe(name string) {
	s := active.Load()
	if s == nil {
		return
	}
	id := verifGoid()
	s.mu.Lock()
	if s.gs[id] == nil {
		g := &G{ID: id, Name: name, wake: make(chan struct{}, 1), Seq: s.nextG}
		s.nextG++
		s.gs[id] = g
	}
	s.mu.Unlock()
}

func (s *Sched) park(g *G, site string, want *lockReq) {
	s.mu.Lock()
	if active.Load() != s {
		s.mu.Unlock()
		return
	}
	g.Site = site
	g.want = want
	s.parked[g] = struct{}{}
	s.mu.Unlock()
	<-g.wake
}

func (s *Sched) lockAvailable(r *lockReq) bool {
	c := r.c
	c.st.Lock()
	defer c.st.Unlock()
	if r.write {
		return c.writer == nil && c.readers == 0
	}
	if c.writer != nil {
		return false
	}
	// writer preference, as sync.RWMutex: a parked writer blocks new readers
	for g := range s.parked {
		if g.want != nil && g.want.c == c && g.want.write {
			return false
		}
	}
	return true
}

// Parked returns the number of goroutines parked at a yield.
func (s *Sched) Parked() int {
	s.mu.Lock()
	defer s.mu.Unlock()
	return len(s.parked)
}

// Step waits for quiescence, then releases one enabled goroutine and waits
// for quiescence again.
func (s *Sched) Step() (Status, *G) {
	s.Wait()
	s.mu.Lock()
	if len(s.parked) == 0 {
		s.mu.Unlock()
		return Idle, nil
	}
	enabled := make([]*G, 0, len(s.parked))
	for g := range s.parked {
		if g.want == nil || s.lockAvailable(g.want) {
			enabled = append(enabled, g)
		}
	}
	if len(enabled) == 0 {
		s.mu.Unlock()
		return LockDeadlock, nil
	}
	sort.Slice(enabled, func(i, j int) bool { return enabled[i].Name < enabled[j].Name })
	cur := -1
	for i, g := range enabled {
		if g == s.cur {
			cur = i
		}
	}
	idx := 0
	if s.Choose != nil {
		idx = s.Choose(s.Steps, cur, enabled)
		if idx < 0 || idx >= len(enabled) {
			idx = 0
		}
	} else if cur >= 0 {
		idx = cur
	}
	g := enabled[idx]
	if g != s.cur {
		s.Switches++
		h := fnv.New64a()
		h.Write([]byte(g.Name))
		h.Write([]byte{0})
		h.Write([]byte(g.Site))
		s.hash = (s.hash ^ h.Sum64()) * 1099511628211
	}
	s.cur = g
	delete(s.parked, g)
	s.Steps++
	s.stepCtr.Add(1)
	s.addTrace(g.Name + " @" + g.Site)
	s.mu.Unlock()
	g.wake <- struct{}{}
	s.Wait()
	return Ran, g
}

func (s *Sched) addTrace(line string) {
	if len(s.trace) >= 2*s.traceCap {
		copy(s.trace, s.trace[len(s.trace)-s.traceCap:])
		s.trace = s.trace[:s.traceCap]
	}
	s.trace = append(s.trace, fmt.Sprintf("%d %s", s.Steps, line))
}

// SetTraceCap sets how many trace lines are kept.
func (s *Sched) SetTraceCap(n int) { s.traceCap = n }

// Logf adds a harness line to the trace ring.
func (s *Sched) Logf(format string, a ...any) {
	s.mu.Lock()
	s.addTrace("# " + fmt.Sprintf(format, a...))
	s.mu.Unlock()
}

// Trace returns the last lines of the trace.
func (s *Sched) Trace(n int) []string {
	s.mu.Lock()
	defer s.mu.Unlock()
	t := s.trace
	if len(t) > n {
		t = t[len(t)-n:]
	}
	return append([]string(nil), t...)
}

// ScheduleHash identifies the sequence of context switches of this run.
func (s *Sched) ScheduleHash() uint64 {
	s.mu.Lock()
	defer s.mu.Unlock()
	return s.hash
}

// ParkedNames lists parked goroutines with their sites and lock wishes.
func (s *Sched) ParkedNames() []string {
	s.mu.Lock()
	defer s.mu.Unlock()
	var out []string
	for g := range s.parked {
		w := ""
		if g.want != nil {
			w = fmt.Sprintf(" wants lock#%d write=%v", g.want.c.id, g.want.write)
		}
		out = append(out, g.Name+" @"+g.Site+w)
	}
	sort.Strings(out)
	return out
}

// ---------------------------------------------------------------------------
// simulated locks

type rwcore struct {
	st      sync.Mutex
	writer  *G
	readers int
	id      int
}

func (s *Sched) lockID(c *rwcore) int {
	s.mu.Lock()
	defer s.mu.Unlock()
	c.st.Lock()
	defer c.st.Unlock()
	if c.id == 0 {
		s.nextL++
		c.id = s.nextL
	}
	return c.id
}

func (s *Sched) lock(c *rwcore, write bool, site string) (acquired bool) {
	g := s.me(site)
	id := s.lockID(c)
	isDriver := verifGoid() == s.driver
	for {
		if !isDriver {
			s.park(g, site, &lockReq{c, write})
		}
		c.st.Lock()
		ok := false
		if write {
			if c.writer == nil && c.readers == 0 {
				c.writer = g
				ok = true
			}
		} else if c.writer == nil {
			c.readers++
			ok = true
		}
		c.st.Unlock()
		if ok {
			if s.OnLock != nil {
				k := "R"
				if write {
					k = "W"
				}
				s.OnLock(g, id, k)
			}
			return true
		}
		if active.Load() != s {
			return false // scheduler went away while waiting: caller falls back to the real lock
		}
		if isDriver {
			panic("verifsim: the driver goroutine needs a simulated lock that is held by a parked goroutine")
		}
	}
}

func (c *rwcore) simHeld(write bool) bool {
	c.st.Lock()
	defer c.st.Unlock()
	if write {
		return c.writer != nil
	}
	return c.readers > 0
}

func (c *rwcore) unlock(write bool) {
	c.st.Lock()
	if write {
		c.writer = nil
	} else {
		c.readers--
	}
	id := c.id
	c.st.Unlock()
	if s := active.Load(); s != nil && s.OnLock != nil {
		k := "r"
		if write {
			k = "w"
		}
		s.OnLock(nil, id, k)
	}
}

// Mutex replaces sync.Mutex in instrumented packages.
type Mutex struct {
	real sync.Mutex
	c    rwcore
}

func (m *Mutex) Lock() {
	if s := active.Load(); s != nil && s.lock(&m.c, true, "lock") {
		return
	}
	m.real.Lock()
}

func (m *Mutex) Unlock() {
	if m.c.simHeld(true) {
		m.c.unlock(true)
		return
	}
	m.real.Unlock()
}

func (m *Mutex) TryLock() bool {
	if s := active.Load(); s != nil {
		g := s.me("trylock")
		m.c.st.Lock()
		defer m.c.st.Unlock()
		if m.c.writer == nil && m.c.readers == 0 {
			m.c.writer = g
			return true
		}
		return false
	}
	return m.real.TryLock()
}

// RWMutex replaces sync.RWMutex in instrumented packages.
type RWMutex struct {
	real sync.RWMutex
	c    rwcore
}

func (m *RWMutex) Lock() {
	if s := active.Load(); s != nil && s.lock(&m.c, true, "lock") {
		return
	}
	m.real.Lock()
}

func (m *RWMutex) Unlock() {
	if m.c.simHeld(true) {
		m.c.unlock(true)
		return
	}
	m.real.Unlock()
}

func (m *RWMutex) RLock() {
	if s := active.Load(); s != nil && s.lock(&m.c, false, "rlock") {
		return
	}
	m.real.RLock()
}

func (m *RWMutex) RUnlock() {
	if m.c.simHeld(false) {
		m.c.unlock(false)
		return
	}
	m.real.RUnlock()
}

func (m *RWMutex) TryLock() bool {
	if s := active.Load(); s != nil {
		g := s.me("trylock")
		m.c.st.Lock()
		defer m.c.st.Unlock()
		if m.c.writer == nil && m.c.readers == 0 {
			m.c.writer = g
			return true
		}
		return false
	}
	return m.real.TryLock()
}

func (m *RWMutex) TryRLock() bool {
	if s := active.Load(); s != nil {
		m.c.st.Lock()
		defer m.c.st.Unlock()
		if m.c.writer == nil {
			m.c.readers++
			return true
		}
		return false
	}
	return m.real.TryRLock()
}

type rlocker RWMutex

func (r *rlocker) Lock()   { (*RWMutex)(r).RLock() }
func (r *rlocker) Unlock() { (*RWMutex)(r).RUnlock() }

// RLocker mirrors sync.RWMutex.RLocker.
func (m *RWMutex) RLocker() sync.Locker { return (*rlocker)(m) }
